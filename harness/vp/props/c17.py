"""C17 -- IRI patterns and examples come from the data.

Theorems: Props/C17.v (C17_stem_longest / C17_stem_none / C17_stem_bnode_class_none on C17_dom,
C17_stem_shaped_longest / C17_stem_shaped_none / C17_stem_prefix_sep_longest for all well-formed
id lists, C17_class_stem, C17_examples_from_data, C17_examples_total, ...).

Correspondence
  (a) function level, bounded-exhaustive: the real `longest_common_prefix`,
      `ClassProfiler._update_shape_min_iri` (folded over id lists) and
      `AnnotateMinIriStrategy._determine_suitable_iri_pattern` against Model/MinIri.v;
  (b) end to end: random graphs (instance IRIs from 1..3 namespaces with shared / unshared
      segments, http/https/urn/..., IRI and blank-node instances) x examples_mode x
      inverse_paths x {ShExC, SHACL} through the real Shaper; `[<stem>~]`, sh:pattern and
      `// rdfs:comment` annotations are parsed back and compared with Model/Examples.v;
  (c) structure: the output with the options on, decorations removed, equals the output
      with the options off.
Oracle (written from the property text, independent of the model): brute force over all
prefixes for the longest admissible stem; example membership against the triples.

Blank nodes.  An instance id is an IRI or a blank-node label (_:label); a blank node has no IRI,
so a class with a blank-node instance has no admissible stem ("a prefix of the IRI of every
instance").  Function level: id lists of labels only / of labels and IRIs / of ids close to the
marker; end to end: every fifth graph once more with the instances of some classes turned into
blank nodes whose labels share a prefix reaching a ':' (bnodify_case), also through the decorated
text stream.  On the source without the first test of _determine_suitable_iri_pattern
(Gen.Consts.c_min_iri_skips_bnode_prefix = false, asked from the model binary: entry c17_info)
a class of blank nodes only gets a piece of its labels as stem: finding C17-F5 (= C09-F3), such
lists are outside C17_dom there; with the test nothing is excused and C17_dom holds them.
"""
import itertools
import json
import os
import random
import re
import signal
import warnings

from vp import core

RDF_TYPE = "http://www.w3.org/1999/02/22-rdf-syntax-ns#type"
XSD = "http://www.w3.org/2001/XMLSchema#"
LANGSTRING = "http://www.w3.org/1999/02/22-rdf-syntax-ns#langString"
SHAPES_NS = "http://weso.es/shapes/"
SH = "http://www.w3.org/ns/shacl#"
SEPS = ":/#"
MODES = [None, "shape", "cons", "all"]


# --------------------------------------------------------------------------
# the property's reference definitions (independent oracle)
# --------------------------------------------------------------------------

def spec_bare_scheme(s):
    """just a scheme: <name>: , <name>:/ or <name>://"""
    return re.fullmatch(r"[^:/#]+:/?/?", s, re.S) is not None


def spec_is_bnode(i):
    """an instance id is an IRI or the label of a blank node, written _:label; a blank node has no IRI"""
    return i.startswith("_:")


def spec_stem_shaped(s, ids):
    return (len(s) >= 3 and s[-1] in SEPS and all(i.startswith(s) for i in ids)
            and not spec_bare_scheme(s))


def spec_admissible(s, ids):
    """"a prefix of the IRI of every instance": every instance has an IRI, and the stem has the shape of one"""
    return spec_stem_shaped(s, ids) and not any(spec_is_bnode(i) for i in ids)


def spec_stem(ids):
    """longest admissible stem, brute force over every prefix of the first id"""
    first = ids[0]
    for n in range(len(first), 0, -1):
        if spec_admissible(first[:n], ids):
            return first[:n]
    return None


def spec_last_sep_common_prefix(ids):
    first = ids[0]
    for n in range(len(first), 0, -1):
        s = first[:n]
        if s[-1] in SEPS and all(i.startswith(s) for i in ids):
            return s
    return None


def root_cause(ids, printed):
    """None when the printed stem is what the property asks for; else a label of the root cause
    (C17-F1 / C17-F2 are the labels of two repaired defects: they are no longer listed as known
    findings, so a hit is a violation), or 'unexplained'."""
    want = spec_stem(ids)
    if printed == want:
        return None
    if printed is not None and want is None and spec_is_bnode(printed) and all(spec_is_bnode(i) for i in ids):
        return RC_BNODE      # a piece of the blank-node LABELS of a class of blank nodes only (C17-F5 = C09-F3)
    if printed is not None and spec_bare_scheme(printed):
        return "C17-F1"      # a bare scheme other than http(s) is printed
    if printed is None and want is not None:
        cand = spec_last_sep_common_prefix(ids)
        if cand is not None and cand.startswith("http") and 3 <= len(cand) < 9:
            return "C17-F2"  # non-scheme stem withheld by the "http... shorter than 9" test
    return "unexplained"


RC_BNODE = "C17-F5"
_GUARD = {}


def bnode_guard_present(mb=None):
    """Gen.Consts.c_min_iri_skips_bnode_prefix, asked from the model binary (entry c17_info): True iff the source tree
    the constants were generated from carries `if longest_common_prefix.startswith("_:"): return None` first in
    AnnotateMinIriStrategy._determine_suitable_iri_pattern (tools/gen_consts.py accepts exactly the two texts).  With
    the test a label stem is never excused by C17-F5 / C09-F3."""
    pid = os.getpid()
    if pid not in _GUARD:
        _GUARD.clear()
        own = mb is None
        if own:
            mb = core.ModelBin()
        try:
            _GUARD[pid] = mb.call("c17_info", [["x"]])[0][0] == "1"
        finally:
            if own:
                mb.close()
    return _GUARD[pid]


def bnode_guard_probe():
    """the same question put to the real function (cross-check of the generated flag, reported in the evidence)"""
    return _real()["det"]("_:genid:b") is None and _real()["det"]("x:genid:b") is not None


def excused(rc, findings, dom, mb=None):
    """a root cause is excused iff it is a listed known finding and the case is outside C17_dom (as the model's
    computable domain test says); the label stem moreover only on the source that has the defect"""
    if mb is None and rc == RC_BNODE:
        return False                       # no model binary: nothing can be said about the source text
    if rc not in findings or dom:
        return False
    if rc == RC_BNODE and bnode_guard_present(mb):
        return False
    return True


def in_quantifier(ids):
    """ids the property quantifies over: non-empty, none starts with the shape marker
    (no IRI and no blank-node label does)"""
    return len(ids) > 0 and not any(i.startswith("%") for i in ids)


# --------------------------------------------------------------------------
# (a) function level
# --------------------------------------------------------------------------

_REAL = {}


def _real():
    if not _REAL:
        warnings.filterwarnings("ignore")
        from shexer.utils.uri import longest_common_prefix
        from shexer.core.shexing.strategy.minimal_iri_strategy.annotate_min_iri_strategy import AnnotateMinIriStrategy
        from shexer.core.profiling import class_profiler as cpm
        from shexer.utils.structures.dicts import ShapeExampleFeaturesDict
        _REAL.update(lcp=longest_common_prefix, det=AnnotateMinIriStrategy(None)._determine_suitable_iri_pattern,
                     cpm=cpm, sefd=ShapeExampleFeaturesDict)
    return _REAL


def impl_lcp_chunk(pairs):
    f = _real()["lcp"]
    return [f(uri1=a, uri2=b) for a, b in pairs]


def impl_det_chunk(strs):
    f = _real()["det"]
    return [f(s) for s in strs]


def impl_stem(ids):
    """the real per-class fold: _init_class_features_dict's sentinel, _update_shape_min_iri per
    instance, then _determine_suitable_iri_pattern on the slot"""
    r = _real()
    cp = r["cpm"].ClassProfiler.__new__(r["cpm"].ClassProfiler)
    cp._shape_feature_examples = r["sefd"](track_inverse_features=False)
    cp._class_counts = {"c": len(ids)}
    cp._init_class_features_dict()
    for i in ids:
        cp._update_shape_min_iri(target_shape="c", instance_iri=i)
    slot = cp._shape_feature_examples.shape_min_iri("c")
    return slot, r["det"](slot)


def impl_stem_chunk(lists):
    return [impl_stem(l) for l in lists]


def words(alphabet, maxlen):
    out = [""]
    for n in range(1, maxlen + 1):
        out += ["".join(t) for t in itertools.product(alphabet, repeat=n)]
    return out


def chunks(l, n):
    return [l[k:k + n] for k in range(0, len(l), n)]


def par(fn, items, n=20000):
    cs = chunks(items, n)
    if len(cs) <= 1:
        return fn(items)
    res = core.pool_map(fn, cs, chunksize=1)
    return [x for c in res for x in c]


def opt(s):
    return "N" if s is None else "S" + s


def cut_partial(s):
    """the model works on UTF-8 bytes: its common prefix may end inside a multi-byte character;
    drop that partial sequence (it never reaches a printed stem: stems end at an ASCII separator)"""
    return s.encode("utf-8", "surrogateescape").decode("utf-8", "ignore")


STRUCT_PREFIXES = ["http://", "https://", "http:/", "http:", "https:", "https:/", "ftp://", "urn:", "h", "", "%",
                   "http://a", "https://a", "httpx://"]
STRUCT_TAILS = ["", "a", "a/", "a/b", "b/", "a:b", "/", "a#", "ab/c/"]


def function_level_inputs(tier):
    big = tier == "thorough"
    A = "htps:/#a"
    det = words(A, 7 if big else 6)
    det += ["http" + w for w in words(A, 6 if big else 5)] + ["https" + w for w in words(A, 5 if big else 4)]
    det += ["\u00e9:/", "h\u00e9:/", "http://\u00e9", "http:/\u00e9/", "\u00e9\u00e9:", "a:\u00e9\u00e9/", "https:/\u00e9/"]
    w3 = words(A, 3)
    lcp = [(a, b) for a in w3 for b in w3]
    w2 = words("h:", 6 if big else 5)
    lcp += [(a, b) for a in w2 for b in w2]
    lcp += [("http://\u00e9a", "http://\u00e9b"), ("http://\u00e9", "http://\u00e8"), ("\u00e9", "\u00e9"), ("\u00e9", "")]
    s3 = words("%h:", 3)
    stems = [list(t) for t in itertools.product(s3, repeat=3)]
    stems += [list(t) for t in itertools.product(s3, repeat=2)] + [[s] for s in s3]
    pool = [p + t for p in STRUCT_PREFIXES for t in STRUCT_TAILS]
    pool = list(dict.fromkeys(pool))
    stems += [list(t) for t in itertools.product(pool, repeat=2)]
    if big:
        stems += [list(t) for t in itertools.product(pool, repeat=3)]
    else:
        sub = pool[::2]
        stems += [list(t) for t in itertools.product(sub, repeat=3)]
    w4 = words("ht:/", 4)
    stems += [list(t) for t in itertools.product(w4, repeat=2)]
    w5 = words("h:/", 5)
    stems += [list(t) for t in itertools.product(w5, repeat=2)]
    # blank-node labels (finding C09-F3 / C17-F5 and its repair): everything that starts with the marker, with '_'
    # and with ':' over a small alphabet; id lists of labels only, of labels and IRIs, of IRI-like ids close to the marker
    B = "_:ab/"
    det += ["_:" + w for w in words(B, 5 if big else 4)] + words("_:a", 6 if big else 5)
    det += ["_:genid:b", "_:genid:", "_:genid", "_:g\u00e9:b", "_:\u00e9:", "_", "_:", "_::", "_:/", "_:#a"]
    wb = words("_:a", 3)
    lcp += [(a, b) for a in wb for b in wb]
    lcp += [("_:genid:b0", "_:genid:b1"), ("_:genid:b0", "http://e/a"), ("_:b0", "_:b1"), ("_:\u00e9:b0", "_:\u00e9:b1")]
    bpool = ["_:b0", "_:b1", "_:genid:b0", "_:genid:b1", "_:genid:c", "_:genid", "_:a:b/c", "_:a:b/d", "_:a:b", "_:",
             "_:x", "_::", "_:a:", "_:\u00e9:b0", "_:\u00e9:b1", "_", "_x:/a", "_x:/b", "_/a:b", "_/a:c", "_:/", "_:/a",
             "http://e/a", "http://e/b", "urn:x:a"]
    stems += [list(t) for t in itertools.product(bpool, repeat=2)]
    stems += [list(t) for t in itertools.product(bpool if big else bpool[::2] + ["_:genid:b1"], repeat=3)]
    sb = words("_:a", 4)
    stems += [list(t) for t in itertools.product(sb, repeat=2)]
    det = list(dict.fromkeys(det))
    lcp = list(dict.fromkeys(lcp))
    stems = [list(t) for t in dict.fromkeys(tuple(x) for x in stems)]
    return det, lcp, stems


# --------------------------------------------------------------------------
# (b) end to end
# --------------------------------------------------------------------------

BASES = ["http://ex.org/", "https://ex.org/", "http://data.ex.org/", "https://other.net/", "urn:ex:", "http://ex.com/v1/"]
RARE_BASES = ["ftp://ex.org/", "file:///data/", "urn:", "mailto:", "http:a/", "http:/x/", "tag:ex.org,2020:",
              "http://\u00e9x.org/", "https://e/"]
SEGS = ["", "a/", "a/b/", "ab/", "b/", "a#", "data#", "a/c/", "res/"]
URN_SEGS = ["", "a:", "a:b:", "ab:", "b:"]
LOCALS = ["i1", "i2", "i3", "item1", "item2", "x/1", "x/2", "\u00e91", "\u00fc", "a", "ab", "n#1", "q"]
CLASSES = ["http://ex.org/C1", "http://ex.org/onto#C2", "https://other.net/v/C3", "http://ex.org/a/C4"]
PROPS = ["http://ex.org/p1", "http://ex.org/p2", "http://other.org/q#p3", "https://ex.org/a/p4"]
LITS = [("abc", None), ("a b", None), ("12:30", None), ("x:y z", None), ("http://looks.like/iri", None),
        ("\u00e9t\u00e9", None), ("5", XSD + "integer"), ("7", XSD + "integer"), ("hola", "@es"), ("ex:i2", None)]
NS_DICTS = [None, {"http://ex.org/": "ex"}, {"http://ex.org/": "ex", "https://other.net/": "o", XSD: "xsd"},
            {"http://ex.org/a/": "exa", "http://ex.org/": "ex", "http://www.w3.org/1999/02/22-rdf-syntax-ns#": "rdf"}]


def gen_namespaces(rnd):
    k = rnd.choice([1, 1, 2, 2, 3])
    base = rnd.choice(RARE_BASES) if rnd.random() < 0.12 else rnd.choice(BASES)
    segs = URN_SEGS if base.startswith(("urn:", "tag:", "mailto:")) else SEGS
    ns = []
    for _ in range(k):
        b = base
        if rnd.random() < 0.25:
            b = rnd.choice(RARE_BASES) if rnd.random() < 0.2 else rnd.choice(BASES)
        sg = URN_SEGS if b.startswith(("urn:", "tag:", "mailto:")) else segs
        ns.append(b + rnd.choice(sg))
    return ns


def gen_case(seed, idx):
    rnd = random.Random("%d/%d" % (seed, idx))
    n_classes = rnd.choice([1, 1, 2, 2, 3])
    classes = rnd.sample(CLASSES, n_classes)
    props = rnd.sample(PROPS, rnd.choice([1, 2, 3]))
    triples = []          # (sk, sid, p, ok, o1, o2)
    all_insts = []
    bn = [0]

    def new_instance(ns):
        if rnd.random() < 0.12:
            bn[0] += 1
            return ("B", "_:b%d" % bn[0])
        return ("I", rnd.choice(ns) + rnd.choice(LOCALS))
    for c in classes:
        ns = gen_namespaces(rnd)
        for _ in range(rnd.choice([1, 2, 2, 3, 4, 5])):
            if all_insts and rnd.random() < 0.15:
                inst = rnd.choice(all_insts)
            else:
                inst = new_instance(ns)
            all_insts.append(inst)
            triples.append((inst[0], inst[1], RDF_TYPE, "I", c, ""))
    others = [("I", "http://ex.org/untyped/u%d" % k) for k in range(3)] + [("I", "urn:x:y"), ("B", "_:u1"),
                                                                            ("I", "ftp://files.org/f")]
    for inst in list(dict.fromkeys(all_insts)):
        for p in props:
            for _ in range(rnd.choice([0, 1, 1, 2])):
                r = rnd.random()
                if r < 0.35:
                    v = rnd.choice(all_insts)
                    triples.append((inst[0], inst[1], p, v[0], v[1], ""))
                elif r < 0.55:
                    v = rnd.choice(others)
                    triples.append((inst[0], inst[1], p, v[0], v[1], ""))
                else:
                    content, dt = rnd.choice(LITS)
                    triples.append((inst[0], inst[1], p, "L", content, dt or ""))
    for _ in range(rnd.choice([0, 1, 2, 3])):
        s = rnd.choice(others)
        v = rnd.choice(all_insts)
        triples.append((s[0], s[1], rnd.choice(props), v[0], v[1], ""))
    triples = list(dict.fromkeys(triples))
    rnd.shuffle(triples)
    return {"idx": idx, "triples": triples, "classes": classes, "ns": rnd.choice(NS_DICTS)}


BN_FAMILIES = ["_:genid:b%d", "_:genid:b%d", "_:n:x:%d", "_:g%d", "_:doc.a:%d", "_:a:b:c%d", "_:\u00e9:%d"]


def bnodify_case(case, seed):
    """a copy of the graph in which the instances of some classes are blank nodes whose labels come from one family
    per class (labels that share a prefix reaching a ':' -- legal in N-Triples: PN_CHARS_U): classes of blank nodes
    only and, through shared instances, classes with both kinds"""
    rnd = random.Random("bn/%d/%s" % (seed, case["idx"]))
    triples = case["triples"]
    classes = list(case["classes"])
    chosen = [c for c in classes if rnd.random() < 0.6] or [rnd.choice(classes)]
    m = {}
    for c in chosen:
        fam = rnd.choice(BN_FAMILIES)
        partial = rnd.random() < 0.25      # some instances keep their IRI: a mixed class
        for (sk, sid, p, ok, o1, o2) in triples:
            if p == RDF_TYPE and ok == "I" and o1 == c and sk == "I" and sid not in m:
                if partial and rnd.random() < 0.5:
                    continue
                m[sid] = fam % len(m)
    def f(kind, x):
        return ("B", m[x]) if kind == "I" and x in m else (kind, x)
    out = []
    for (sk, sid, p, ok, o1, o2) in triples:
        s2 = f(sk, sid)
        o = f(ok, o1) if ok != "L" else (ok, o1)
        out.append((s2[0], s2[1], p, o[0], o[1], o2))
    out = list(dict.fromkeys(out))
    return {"idx": "bn%s" % case["idx"], "triples": out, "classes": classes, "ns": case["ns"]}


def nt_term(kind, a, b=""):
    if kind == "I":
        return "<%s>" % a
    if kind == "B":
        return a
    if b == "":
        return '"%s"' % a
    if b.startswith("@"):
        return '"%s"%s' % (a, b)
    return '"%s"^^<%s>' % (a, b)


def nt_of(triples):
    return "".join("%s <%s> %s .\n" % (nt_term(sk, sid), p, nt_term(ok, o1, o2)) for (sk, sid, p, ok, o1, o2) in triples)


class _Timeout(Exception):
    pass


def _alarm(signum, frame):
    raise _Timeout()


def guarded(fn, seconds=10.0):
    old = signal.signal(signal.SIGALRM, _alarm)
    signal.setitimer(signal.ITIMER_REAL, seconds)
    try:
        return fn()
    finally:
        signal.setitimer(signal.ITIMER_REAL, 0)
        signal.signal(signal.SIGALRM, old)


def reader_triples(nt):
    """what the real N-Triples yielder delivers for the text (assumption monitor)"""
    from shexer.io.graph.yielder.nt_triples_yielder import NtTriplesYielder
    from shexer.model.IRI import IRI
    from shexer.model.bnode import BNode

    def k(x):
        return "I" if isinstance(x, IRI) else "B" if isinstance(x, BNode) else "L"
    return [(k(s), str(s), str(p), k(o), str(o)) for s, p, o in NtTriplesYielder(raw_graph=nt).yield_triples()]


def run_shaper(nt, ns, dmi, mode, inv, fmt):
    from shexer.shaper import Shaper
    from shexer.consts import NT, SHEXC, SHACL_TURTLE
    sh = Shaper(raw_graph=nt, input_format=NT, all_classes_mode=True, detect_minimal_iri=dmi, examples_mode=mode,
                inverse_paths=inv, namespaces_dict=dict(ns) if ns is not None else None)
    return sh.shex_graph(string_output=True, output_format=SHEXC if fmt == "shexc" else SHACL_TURTLE,
                         acceptance_threshold=0)


_HDR = re.compile(r"^(\S+?)(?:  \[<(.*)>~\]  AND)?\s*$")
_EXC = re.compile(r"^\s*// rdfs:comment (.*) ;$")
_CLOSE = re.compile(r"^\}(?: // rdfs:comment (.*))?$")


def expand(tok, prefixes):
    if tok.startswith("<") and tok.endswith(">"):
        return tok[1:-1]
    if ":" in tok:
        pfx, local = tok.split(":", 1)
        if pfx in prefixes:
            return prefixes[pfx] + local
    return tok


def unrender(tok, prefixes):
    """(kind, text, alt) of a printed example; alt = the IRI a quoted prefixed name would stand for
    (the serialiser prefixes an IRI first and may then quote the result)"""
    if len(tok) >= 2 and tok[0] == '"' and tok[-1] == '"':
        alt = expand(tok[1:-1], prefixes)
        return ("lit", tok[1:-1], alt if alt != tok[1:-1] else None)
    if len(tok) >= 2 and tok[0] == "<" and tok[-1] == ">":
        return ("iri", tok[1:-1], None)
    if tok.startswith("_:"):
        return ("bnode", tok, None)
    return ("iri", expand(tok, prefixes), None)


def parse_shexc(text, classes):
    by_local = {re.split(r"[/#]", c)[-1]: c for c in classes}
    prefixes = {}
    out = {"stems": {}, "shape_ex": {}, "cons": [], "n_constraints": 0, "problems": []}
    cur = None
    last = None
    inside = False
    for line in text.split("\n"):
        if line.startswith("PREFIX "):
            m = re.match(r"^PREFIX (\S*): <(.*)>$", line)
            prefixes[m.group(1)] = m.group(2)
            continue
        if not line.strip():
            continue
        if not inside:
            if line == "{":
                inside = True
                continue
            m = _HDR.match(line)
            if not m:
                out["problems"].append("unparsed header line %r" % line)
                continue
            label = expand(m.group(1), prefixes)
            local = re.split(r"[/#]", label)[-1]
            cur = by_local.get(local)
            if cur is None:
                out["problems"].append("unknown shape label %r" % m.group(1))
            out["stems"][cur] = m.group(2)
            last = None
            continue
        m = _CLOSE.match(line)
        if m:
            inside = False
            if m.group(1) is not None:
                out["shape_ex"][cur] = unrender(m.group(1), prefixes)
            continue
        st = line.strip()
        m = _EXC.match(line)
        if m:
            if last is None:
                out["problems"].append("example comment without constraint %r" % line)
            else:
                last["ex"].append(unrender(m.group(1), prefixes))
            continue
        if st.startswith("#"):
            continue
        toks = st.split("  ")
        inverse = toks[0] == "^"
        ptok = toks[1] if inverse else toks[0]
        last = {"class": cur, "inv": inverse, "prop": expand(ptok, prefixes), "ex": []}
        out["cons"].append(last)
        out["n_constraints"] += 1
    return out


def strip_shexc(text):
    t = re.sub(r"  \[<[^\n]*>~\]  AND", "", text)
    t = re.sub(r"^[ ]*// rdfs:comment [^\n]* ;\n", "", t, flags=re.M)
    t = re.sub(r"^\} // rdfs:comment [^\n]*$", "}", t, flags=re.M)
    return t


def parse_shacl(text):
    import rdflib
    g = rdflib.Graph()
    g.parse(data=text, format="turtle")
    stems = {}
    pat = rdflib.URIRef(SH + "pattern")
    tc = rdflib.URIRef(SH + "targetClass")
    problems = []
    for s, c in g.subject_objects(tc):
        stems[str(c)] = None
    for s, o in list(g.subject_objects(pat)):
        c = g.value(s, tc)
        v = str(o)
        if not v.startswith("^"):
            problems.append("sh:pattern %r does not start with ^" % v)
        stems[str(c)] = v[1:]
        g.remove((s, pat, o))
    return stems, g, problems


def configs():
    out = []
    for inv in (False, True):
        for mode in MODES:
            out.append((True, mode, inv, "shexc"))
        for mode in (None, "all"):
            out.append((True, mode, inv, "shacl"))
        for mode in ("shape", "cons", "all"):
            out.append((False, mode, inv, "shexc"))
    return out


CONFIGS = configs()


def impl_case(case):
    """all real runs for one graph; returns per-configuration observations"""
    warnings.filterwarnings("ignore")
    from rdflib.compare import isomorphic
    triples = [tuple(t) for t in case["triples"]]
    nt = nt_of(triples)
    res = {"idx": case["idx"], "reader_ok": True, "runs": []}
    try:
        got = guarded(lambda: reader_triples(nt))
        want = [(sk, sid, p, ok, o1) for (sk, sid, p, ok, o1, o2) in triples]
        res["reader_ok"] = (got == want)
    except BaseException as e:  # noqa
        res["reader_ok"] = False
        res["reader_err"] = type(e).__name__
    if not res["reader_ok"]:
        return res
    only = case.get("only")
    base = {}
    for (dmi, mode, inv, fmt) in CONFIGS:
        if only is not None and [dmi, mode, inv, fmt] != list(only):
            continue
        ob = {"cfg": [dmi, mode, inv, fmt], "err": None}
        try:
            if (inv, fmt) not in base:
                b = guarded(lambda: run_shaper(nt, case["ns"], False, None, inv, fmt))
                base[(inv, fmt)] = b if fmt == "shexc" else parse_shacl(b)[1]
            text = guarded(lambda: run_shaper(nt, case["ns"], dmi, mode, inv, fmt))
            if fmt == "shexc":
                p = parse_shexc(text, case["classes"])
                ob.update(stems=p["stems"], shape_ex=p["shape_ex"], cons=p["cons"], n_constraints=p["n_constraints"],
                          problems=p["problems"], struct_ok=(strip_shexc(text) == base[(inv, fmt)]))
            else:
                stems, g, problems = parse_shacl(text)
                ob.update(stems=stems, shape_ex={}, cons=[], n_constraints=0, problems=problems,
                          struct_ok=bool(isomorphic(g, base[(inv, fmt)])))
            if not ob["struct_ok"] or ob["problems"]:
                ob["text"] = text
        except _Timeout:
            ob["err"] = "hang"
        except BaseException as e:  # noqa
            ob["err"] = "%s: %s" % (type(e).__name__, str(e)[:200])
        res["runs"].append(ob)
    return res


def model_rows(case, dmi, mode, inv):
    b = lambda x: "1" if x else "0"
    return [[b(dmi), opt(mode), b(inv)]] + [list(t) for t in case["triples"]]


def model_case(mb, case, dmi, mode, inv):
    rows = mb.call("c17_graph", model_rows(case, dmi, mode, inv))
    m = {"err": None, "stems": {}, "shape_ex": {}, "cons": {}, "dom": {}}
    for r in rows:
        if r[0] == "err":
            m["err"] = r[1]
        elif r[0] == "shape":
            st = r[2]
            m["stems"][r[1]] = None if st in ("-", "N") else ("ERR" if st == "E" else st[1:])
            m["shape_ex"][r[1]] = None if r[3] == "N" else r[3][1:]
            m["dom"][r[1]] = r[4] == "1"
        elif r[0] == "cons":
            m["cons"][(r[1], r[2] == "i", r[3])] = r[4]
    return m, rows


# ---- oracle on a graph (from the property text; uses only the abstract triples) ----

def spec_instances(triples, c):
    seen = []
    for (sk, sid, p, ok, o1, o2) in triples:
        if p == RDF_TYPE and ok == "I" and o1 == c and sid not in seen:
            seen.append(sid)
    return seen


def spec_kind_of(kind):
    return "lit" if kind == "L" else "iri" if kind == "I" else "bnode"


def spec_values(triples, insts, p, inverse):
    """(kind, text) of every value of p on an instance, in that direction"""
    vals = []
    for (sk, sid, tp, ok, o1, o2) in triples:
        if tp != p:
            continue
        if not inverse and sid in insts:
            vals.append((spec_kind_of(ok), o1))
        if inverse and ok != "L" and o1 in insts:
            vals.append((spec_kind_of(sk), sid))
    return vals


def check_case(case, res, mb, stats, run, findings):
    """compare one graph's real runs with the oracle and the model; returns vm cases"""
    triples = [tuple(t) for t in case["triples"]]
    kinds = {}
    for (sk, sid, p, ok, o1, o2) in triples:
        kinds[sid] = sk
        if ok != "L":
            kinds[o1] = ok
    vm = []
    model_cache = {}
    for ob in res["runs"]:
        dmi, mode, inv, fmt = ob["cfg"]
        stats["runs"] += 1
        replay = {"kind": "graph", "case": case, "config": ob["cfg"]}
        if ob["err"] is not None:
            stats["impl_errors"] += 1
            stats.setdefault("impl_error_samples", [])
            if len(stats["impl_error_samples"]) < 3:
                stats["impl_error_samples"].append(ob["err"])
            # the options must not make extraction fail: the baseline run of the same graph succeeded or not?
            stats["spec_fail"].append(("extraction raised with the option on: %s" % ob["err"], replay))
            continue
        if ob["problems"]:
            stats["parse_problems"].append((ob["problems"][:3], replay))
            continue
        # (c) structure
        if not ob["struct_ok"]:
            stats["spec_fail"].append(("constraints differ from the run with the options off", replay))
        key = (dmi, mode, inv)
        if key not in model_cache:
            model_cache[key] = model_case(mb, case, dmi, mode, inv)
        m, mrows = model_cache[key]
        if m["err"] is not None:
            stats["corr_fail"].append(("model raises %s, implementation ran" % m["err"], replay))
            continue
        if len(vm) < 1 and key == (True, "all", True):
            vm.append(("c17_graph", model_rows(case, dmi, mode, inv), mrows))
        # ---- stems
        for c in case["classes"]:
            ids = spec_instances(triples, c)
            if not ids:
                continue
            printed = ob["stems"].get(c) if dmi else None
            if c not in ob["stems"]:
                stats["spec_fail"].append(("no shape printed for class %s" % c, replay))
                continue
            if dmi:
                stats["stem_checks"] += 1
                stats["stem_kinds"][("none" if printed is None else "some")] += 1
                rc = root_cause(ids, printed)
                if all(spec_is_bnode(i) for i in ids):
                    stats["bnode_only_class_checks"] = stats.get("bnode_only_class_checks", 0) + 1
                elif any(spec_is_bnode(i) for i in ids):
                    stats["mixed_class_checks"] = stats.get("mixed_class_checks", 0) + 1
                if rc is not None:
                    if excused(rc, findings, m["dom"].get(c, False), mb):
                        stats["known_hits"][rc] = stats["known_hits"].get(rc, 0) + 1
                    else:
                        stats["spec_fail"].append((
                            "stem %r printed for class %s; the property asks for %r (root cause %s, in C17_dom: %s)" % (
                                printed, c, spec_stem(ids), rc, m["dom"].get(c)), replay))
                if m["stems"].get(c) != printed:
                    stats["corr_fail"].append(("stem of %s: implementation %r, model %r" % (c, printed, m["stems"].get(c)),
                                               replay))
            elif ob["stems"].get(c) is not None:
                stats["spec_fail"].append(("a stem is printed without detect_minimal_iri", replay))
        if fmt != "shexc":
            continue
        # ---- shape examples
        want_shape = mode in ("shape", "all")
        for c in case["classes"]:
            ids = spec_instances(triples, c)
            if not ids:
                continue
            shown = ob["shape_ex"].get(c)
            if not want_shape:
                if shown is not None:
                    stats["spec_fail"].append(("a shape example is printed with examples_mode=%r" % mode, replay))
                continue
            stats["shape_ex_checks"] += 1
            if shown is None:
                stats["corr_fail"].append(("no example printed for shape %s" % c, replay))
                continue
            kind, text, _alt = shown
            if text not in ids:
                stats["spec_fail"].append(("shape example %r is not an instance of %s" % (text, c), replay))
            elif kind != spec_kind_of(kinds.get(text, "I")):
                # a blank-node instance printed as <_:b>: node kind lost
                if "C17-F3" in findings:
                    stats["known_hits"]["C17-F3"] = stats["known_hits"].get("C17-F3", 0) + 1
                else:
                    stats["spec_fail"].append(("shape example %r shown with the wrong node kind" % text, replay))
            if m["shape_ex"].get(c) != text:
                stats["corr_fail"].append(("shape example of %s: implementation %r, model %r" % (
                    c, text, m["shape_ex"].get(c)), replay))
        # ---- constraint examples
        want_cons = mode in ("cons", "all")
        for k in ob["cons"]:
            c, p = k["class"], k["prop"]
            if not want_cons or p == RDF_TYPE:
                if k["ex"]:
                    stats["spec_fail"].append(("a constraint example is printed where none is expected (%s %s)" % (c, p),
                                               replay))
                continue
            stats["cons_ex_checks"] += 1
            if len(k["ex"]) != 1:
                stats["corr_fail"].append(("%d examples printed for constraint %s %s%s" % (
                    len(k["ex"]), c, "^" if k["inv"] else "", p), replay))
                continue
            kind, text, alt = k["ex"][0]
            ids = spec_instances(triples, c)
            vals = spec_values(triples, ids, p, k["inv"])
            if text not in [v[1] for v in vals] and alt is not None and alt in [v[1] for v in vals] \
                    and "C17-F3" in findings:
                text = alt      # an IRI value, prefixed and then quoted: kind lost (C17-F3), value identifiable
            if text not in [v[1] for v in vals]:
                stats["spec_fail"].append(("constraint example %r is not a value of %s%s on an instance of %s" % (
                    text, "^" if k["inv"] else "", p, c), replay))
            elif (kind, text) not in vals:
                if "C17-F3" in findings:
                    stats["known_hits"]["C17-F3"] = stats["known_hits"].get("C17-F3", 0) + 1
                else:
                    stats["spec_fail"].append(("constraint example %r shown with the wrong kind %s" % (text, kind), replay))
            mv = m["cons"].get((c, k["inv"], p))
            if mv != text:
                stats["corr_fail"].append(("constraint example of %s %s%s: implementation %r, model %r" % (
                    c, "^" if k["inv"] else "", p, text, mv), replay))
    return vm


# --------------------------------------------------------------------------
# known findings: pinned reproducers
# --------------------------------------------------------------------------

def load_corpus():
    d = os.path.join(core.VERIF, "corpus", "C17")
    out = []
    if os.path.isdir(d):
        for fn in sorted(os.listdir(d)):
            if fn.endswith(".json"):
                with open(os.path.join(d, fn)) as f:
                    rp = json.load(f)
                c = dict(rp["case"])
                c["triples"] = [tuple(t) for t in c["triples"]]
                c["only"] = rp.get("config")
                c["corpus"] = fn
                out.append(c)
    return out


def replay_finding(fid, f):
    """True iff the pinned reproducer still shows the defect on the real code"""
    rp = f["reproducer"]
    if fid == "C17-F4":
        from vp import pipedecor
        with_opt = pipedecor.impl_text(rp["ts"], rp["cfg"])
        plain = dict(rp["cfg"], detect_minimal_iri=False, examples_mode=None)
        without = pipedecor.impl_text(rp["ts"], plain)
        return (with_opt[0] == "err" and with_opt[1] == "AttributeError" and without[0] == "ok",
                "with examples_mode=%r: %s; without: %s" % (rp["cfg"]["examples_mode"], with_opt[:2], without[0]))
    case = {"idx": -1, "triples": [tuple(t) for t in rp["triples"]], "classes": rp["classes"], "ns": None,
            "only": rp["config"]}
    res = impl_case(case)
    if not res["reader_ok"] or not res["runs"] or res["runs"][0]["err"]:
        return False, "reproducer did not run: %r" % (res,)
    ob = res["runs"][0]
    c = rp["classes"][0]
    ids = spec_instances(case["triples"], c)
    if fid in ("C17-F1", "C17-F2", RC_BNODE):
        printed = ob["stems"].get(c)
        return root_cause(ids, printed) == fid, "stem printed: %r, asked for: %r" % (printed, spec_stem(ids))
    if fid == "C17-F3":
        bad = []
        for k in ob["cons"]:
            if k["ex"]:
                vals = spec_values(case["triples"], ids, k["prop"], k["inv"])
                if tuple(k["ex"][0][:2]) not in vals and k["ex"][0][1] in [v[1] for v in vals]:
                    bad.append((k["prop"], k["ex"][0][:2]))
        return bool(bad), "examples shown with the wrong kind: %r" % (bad[:3],)
    return False, "no replay rule for %s" % fid


# --------------------------------------------------------------------------
# run
# --------------------------------------------------------------------------

def run(tier, seed, replay=None):
    run = core.Run("C17", tier, seed)
    bs = core.build("C17")
    proofs_ok = core.proof_gate(run, bs)
    rnd = random.Random(seed)
    findings = {f["id"]: f for f in core.load_findings("C17") if f.get("status") == "known"}
    _real()
    mb = core.ModelBin() if bs.model_ok else None
    if mb is None:
        run.notes.append("model binary unavailable: " + bs.model_log[-800:])

    spec_fail = []      # (what, replay payload)
    corr_fail = []
    known_hits = {}
    vm_cases = []
    cov = {}

    rp = None
    if replay:
        with open(replay) as f:
            rp = json.load(f)

    # ---------------- (a) function level ----------------
    if rp is None or rp.get("kind") in ("det", "lcp", "stem"):
        if rp is None:
            det, lcp, stems = function_level_inputs(tier)
        else:
            det = [rp["s"]] if rp["kind"] == "det" else []
            lcp = [(rp["a"], rp["b"])] if rp["kind"] == "lcp" else []
            stems = [rp["ids"]] if rp["kind"] == "stem" else []
        i_det = par(impl_det_chunk, det)
        i_lcp = par(impl_lcp_chunk, lcp)
        i_stem = par(impl_stem_chunk, stems, n=5000)
        n_dom = 0
        n_nontrivial = 0
        if mb is not None:
            m_det = []
            for c in chunks(det, 50000):
                m_det += [r[0] for r in mb.call("c17_det", [[s] for s in c])]
            m_lcp = []
            for c in chunks(lcp, 50000):
                m_lcp += [r[0] for r in mb.call("c17_lcp", [[a, b] for a, b in c])]
            m_stem = []
            for c in chunks(stems, 20000):
                m_stem += mb.call("c17_stem", c)
            for s, a, b in zip(det, i_det, m_det):
                if opt(a) != b:
                    corr_fail.append(("_determine_suitable_iri_pattern(%r): implementation %r, model %r" % (s, a, b),
                                      {"kind": "det", "s": s}))
            for (x, y), a, b in zip(lcp, i_lcp, m_lcp):
                if a != cut_partial(b):
                    corr_fail.append(("longest_common_prefix(%r, %r): implementation %r, model %r" % (x, y, a, b),
                                      {"kind": "lcp", "a": x, "b": y}))
            for ids, a, b in zip(stems, i_stem, m_stem):
                if [a[0], opt(a[1])] != [cut_partial(b[0]), b[1]]:
                    corr_fail.append(("min-IRI fold over %r: implementation %r, model %r" % (ids, a, b),
                                      {"kind": "stem", "ids": ids}))
            if rp is None:
                k = 400
                for name, ins, outs in (("c17_det", [[s] for s in det], [[x] for x in m_det]),
                                        ("c17_lcp", [[a, b] for a, b in lcp], [[x] for x in m_lcp]),
                                        ("c17_stem", stems, m_stem)):
                    idx = rnd.sample(range(len(ins)), min(len(ins), 1600 if tier == "thorough" else 800))
                    for j in range(0, len(idx), k):
                        vm_cases.append((name, [ins[i] for i in idx[j:j + k]], [outs[i] for i in idx[j:j + k]]))
        # oracle on every id list the property quantifies over
        out_q = 0
        for n, (ids, a) in enumerate(zip(stems, i_stem)):
            if not in_quantifier(ids):
                out_q += 1
                continue
            dom = (mb is not None and m_stem[n][2] == "1")
            n_dom += dom
            if a[1] is not None:
                n_nontrivial += 1
            rc = root_cause(ids, a[1])
            if rc is None:
                continue
            if excused(rc, findings, dom, mb):
                known_hits[rc] = known_hits.get(rc, 0) + 1
            else:
                spec_fail.append(("stem %r for instance ids %r; the property asks for %r (root cause %s, in C17_dom: %s)" % (
                    a[1], ids, spec_stem(ids), rc, dom), {"kind": "stem", "ids": ids}))
        cov.update({"function_level": {"determine_inputs": len(det), "determine_inputs_accepted": sum(1 for x in i_det if x is not None),
                                       "lcp_pairs": len(lcp), "fold_id_lists": len(stems),
                                       "id_lists_outside_quantifier(% ids)": out_q, "id_lists_in_C17_dom": n_dom,
                                       "id_lists_with_a_stem": n_nontrivial}})

    # ---------------- (b), (c) end to end ----------------
    stats = {"runs": 0, "impl_errors": 0, "stem_checks": 0, "shape_ex_checks": 0, "cons_ex_checks": 0,
             "stem_kinds": {"none": 0, "some": 0}, "known_hits": known_hits, "spec_fail": spec_fail,
             "corr_fail": corr_fail, "parse_problems": []}
    cases = []
    n_corpus = 0
    if rp is None:
        cases = load_corpus()          # regression cases of repaired defects: replayed first, must pass
        n_corpus = len(cases)
        n_graphs = 2500 if tier == "thorough" else 450
        cases += [gen_case(seed, i) for i in range(n_graphs)]
        # every fifth graph once more with blank-node instances (label families that share a prefix reaching a ':')
        cases += [bnodify_case(c, seed) for c in cases[n_corpus:][::5]]
    elif rp.get("kind") == "graph":
        c = dict(rp["case"])
        c["triples"] = [tuple(t) for t in c["triples"]]
        c["only"] = rp.get("config")
        cases = [c]
    reader_bad = 0
    samples = []
    if cases and mb is not None:
        results = core.pool_map(impl_case, cases, chunksize=8)
        for case, res in zip(cases, results):
            if not res["reader_ok"]:
                reader_bad += 1
                continue
            vm = check_case(case, res, mb, stats, run, findings)
            if len(vm_cases) < 40 + (60 if tier == "thorough" else 25):
                vm_cases += vm
            if len(samples) < 3 and res["runs"]:
                ob = res["runs"][3 if len(res["runs"]) > 3 else 0]
                samples.append({"nt": nt_of(case["triples"])[:600], "config": ob["cfg"], "stems": ob.get("stems"),
                                "shape_examples": ob.get("shape_ex"), "n_constraints": ob.get("n_constraints")})
        if reader_bad:
            run.notes.append("%d generated graphs skipped: the real N-Triples reader did not deliver the generated "
                             "triples (monitored assumption)" % reader_bad)
        for probs, payload in stats["parse_problems"][:3]:
            run.internal_errors.append("cannot parse the serialised output: %r" % (probs,))

    # ---------------- (d) decorated ShExC text, byte for byte (harness/vp/pipedecor.py) ----------------
    decor = None
    if mb is not None and (rp is None or rp.get("kind") == "decor"):
        from vp import pipedecor
        only = None if rp is None else {"ts": rp["ts"], "cfg": rp["cfg"], "origin": rp.get("origin")}
        decor, decor_items = pipedecor.stream(tier, seed, cases, findings, only_item=only)
        corr_fail += decor["corr_fail"]
        spec_fail += decor["spec_fail"]
        for k, v in decor["known_hits"].items():
            known_hits[k] = known_hits.get(k, 0) + v
        if rp is None:
            vm_cases += pipedecor.vm_cases(decor_items)

    # ---------------- vm_compute cross-check ----------------
    vm_n = 0
    if mb is not None and rp is None and vm_cases:
        _, mism, log = core.vm_crosscheck(vm_cases, "c17", per_file=4, timeout=900)
        vm_n = sum(len(i) if n != "c17_graph" else 1 for n, i, o in vm_cases)
        if mism:
            run.internal_errors.append("extracted binary and vm_compute disagree (C17): %s %s" % (mism[:5], log[-300:]))
    if mb is not None:
        mb.close()

    # ---------------- known findings: pinned reproducers ----------------
    for fid, f in findings.items():
        ok, detail = replay_finding(fid, f)
        if ok:
            run.known_finding(fid, "%s -> %s" % (f["what"], detail))
        else:
            run.notes.append("finding %s no longer reproduces (%s)" % (fid, detail))

    # ---------------- verdict ----------------
    # regression-corpus and whole-graph failing inputs first: they are the most readable replays
    spec_fail.sort(key=lambda wp: 0 if wp[1].get("kind") == "graph" and wp[1]["case"].get("corpus") else
                   1 if wp[1].get("kind") == "graph" else 2)
    for what, payload in spec_fail[:5]:
        run.violation(what, payload, failing_input=True)
    if not spec_fail:
        if corr_fail:
            what, payload = corr_fail[0]
            p = dict(payload)
            p.update({"broken": "correspondence Model/RunDecor.v (run_shexc_decor) vs the ShExC text of Shaper(..., "
                                "detect_minimal_iri, examples_mode).shex_graph" if payload.get("kind") == "decor" else
                                "correspondence Model/MinIri.v + Model/Examples.v vs shexer (longest_common_prefix, "
                                "_update_shape_min_iri, _determine_suitable_iri_pattern, example bookkeeping)",
                      "first_case": what, "n_disagreements": len(corr_fail)})
            run.violation("correspondence C17 no longer checks: " + what, p, failing_input=False)
        elif not proofs_ok:
            run.violation("proof obligations of C17 no longer check",
                          {"broken": "theorems of Props/C17.v (or Gen/Consts.v generation)",
                           "log": run.notes[-1] if run.notes else ""}, failing_input=False)
        elif not bs.model_ok:
            run.violation("model no longer builds", {"broken": "Model/Entry extraction", "log": bs.model_log[-1500:]},
                          failing_input=False)

    fl = cov.get("function_level", {})
    evaluations = fl.get("determine_inputs", 0) + fl.get("lcp_pairs", 0) + fl.get("fold_id_lists", 0) + stats["runs"]
    if decor is not None:
        evaluations += decor["n"]
        cov["decorated_text"] = dict(decor["cov"], disagreements=len(decor["corr_fail"]), oracle_failures=len(decor["spec_fail"]),
                                     rule="real ShExC text == run_shexc_decor text, byte for byte after the ratio shim; "
                                          "every C17 graph x examples_mode x detect_minimal_iri x inverse_paths (report mode, "
                                          "namespaces, switches, threshold, OR, target classes vary per case) + pipeline "
                                          "graphs with rich configurations; in_strip_domain = cases inside the computable "
                                          "domain of C17_text_strip_decor")
    cov.update({
        "evaluations": evaluations,
        "distinct_nontrivial": fl.get("id_lists_with_a_stem", 0) + stats["stem_kinds"]["some"] + stats["shape_ex_checks"]
        + stats["cons_ex_checks"],
        "rule": "function level: every string of length <= %d over {h,t,p,s,:,/,#,a} plus 'http'/'https' followed by every "
                "string of length <= %d/%d over it through _determine_suitable_iri_pattern; all ordered pairs of strings of "
                "length <= 3 over that alphabet and of length <= %d over {h,:} through longest_common_prefix; all ordered "
                "triples/pairs of strings of length <= 3 over {%%,h,:}, all ordered pairs (and %s ordered triples) of %d "
                "structured ids (scheme prefix x tail) and all ordered pairs of strings of length <= 4 over {h,t,:,/} and <= 5 over {h,:,/} "
                "through the real _update_shape_min_iri fold + _determine_suitable_iri_pattern.  Distinct by construction.  "
                "Non-trivial = id lists for which a stem is printed + end-to-end printed-stem, shape-example and "
                "constraint-example checks.  End to end: %d random graphs x %d configurations (detect_minimal_iri x "
                "examples_mode x inverse_paths x ShExC/SHACL)" % (
                    ((7, 6, 5, 6, "all") if tier == "thorough" else (6, 5, 4, 5, "every-other-id")) +
                    (len(STRUCT_PREFIXES) * len(STRUCT_TAILS), len(cases), len(CONFIGS))),
        "exhaustive": True if rp is None else False,
        "exhaustive_scope": "function-level spaces listed in `rule` are enumerated completely; the end-to-end part is sampled",
        "bnode_prefix_guard_in_source": (bnode_guard_present() if bs.model_ok else None),
        "bnode_prefix_guard_probe_of_real_function": bnode_guard_probe(),
        "end_to_end": {"graphs": len(cases), "corpus_cases_replayed_first": n_corpus, "real_runs": stats["runs"], "stem_checks": stats["stem_checks"],
                       "stem_checks_on_classes_of_blank_nodes_only": stats.get("bnode_only_class_checks", 0),
                       "stem_checks_on_classes_with_both_kinds": stats.get("mixed_class_checks", 0),
                       "stems_printed": stats["stem_kinds"]["some"], "stems_withheld": stats["stem_kinds"]["none"],
                       "shape_example_checks": stats["shape_ex_checks"], "constraint_example_checks": stats["cons_ex_checks"],
                       "extraction_errors": stats["impl_errors"], "reader_monitor_skips": reader_bad},
        "known_finding_hits": known_hits,
        "vm_compute_crosschecked": vm_n,
        "vm_compute_crosschecked_unit": "function-level rows + whole-graph cases re-evaluated inside Coq",
        "disagreements_model_vs_impl": len(corr_fail),
        "oracle_failures": len(spec_fail),
        "first_disagreements": [w for w, _ in corr_fail[:5]],
        "first_oracle_failures": [w for w, _ in spec_fail[:5]],
        "samples": samples + [{"ids": ["http://ex.org/a/i1", "http://ex.org/a/i2", "http://ex.org/b/i3"],
                               "impl": list(impl_stem(["http://ex.org/a/i1", "http://ex.org/a/i2", "http://ex.org/b/i3"]))},
                              {"ids": ["https://a.org/x", "https://b.org/y"],
                               "impl": list(impl_stem(["https://a.org/x", "https://b.org/y"]))}],
    })
    run.coverage.update(cov)
    run.assumptions = [
        "strings are modelled as UTF-8 byte lists: longest_common_prefix compares code points, the model bytes; the "
        "difference is a partial multi-byte sequence that the last-separator cut removes (covered by non-ASCII cases)",
        "the generated N-Triples text is delivered by the real reader as the generated abstract triples (monitored on "
        "every graph; C06 is about the reader)",
        "the instance dictionary is the one Model/Tracker.v computes (all_classes_mode, no cap)",
        "decorated text: the decimal rendering of a ratio is the shim of harness/vp/pipe.py (as for every pipeline property)",
        "examples are compared by their text and by IRI/literal kind as printed; the datatype of a literal example is "
        "not printed by the code and not compared",
    ]
    return run.finish(bs)
