"""C16 -- restriction options equal restricting the input.

Theorems: Props/C16.v (cap = first-k per class, in both target modes incl. the
early stop; cap = no cap on the restricted document for the instance pass;
large cap = identity; namespaces_to_ignore = deletion of direct-child
predicates from the feature pass only).

Per case this check does
 (i)  CORRESPONDENCE  real Shaper ShExC text == model text, byte for byte
      (entries pipe_shexc with r_cap / pipe_shexc_ign);
 (ii) ORACLE (property text, metamorphic, independent of the model), two REAL runs:
      cap:  Shaper(graph=g, instances_cap=k)  ==  Shaper(graph=g, instances_file_input=restrict(g,k))
            -- the restricted document goes to the INSTANCE pass only (Props/C16.v
            C16_cap_is_restriction_run explains why: the deleted typing triples remain
            features of nodes kept for another class); where no deleted typing triple
            has a kept subject / kept class node, also == Shaper(graph=restrict(g,k));
            every shape header count == min(k, |class|); every direct figure with an
            exact/'+' cardinality == occ recomputed on the kept subset; k >= every
            class size => == Shaper(graph=g) without the option;
      ns:   Shaper(graph=g, namespaces_to_ignore=N) == Shaper(graph=g minus child-predicate
            triples, instances_file_input=g)  (membership from the full graph); when the
            instantiation property is not ignored also == Shaper(graph=g minus ...) alone;
            ignore sets also drawn from one STEM family ('#'- and '/'-terminated namespaces
            hanging from each other: http://ex.org/ , http://ex.org/voc# , http://ex.org/voc/ ,
            http://ex.org/voc/sub# ...) over graphs using several of them, statements shuffled;
      multi-file: the document of a cap case split into several N-Triples files whose names
            are NOT in sorted order (graph_list_of_files_input as given; one zip archive with
            its members in that order; several archives), every path distinct: "document
            order" is the order in which the files are given, so the run over the files with
            instances_cap=k must equal the uncapped run on restrict(concatenation, k) -- the
            same oracle as for one file -- and the model on the concatenation;
 (iii) EXHAUSTIVE: every ordering (up to renaming) of <= L typing triples over <= 3 classes x
      <= 4 instances x caps 1..max+1 x {all_classes, target_classes = all, target_classes = [C0]}.
"""
import itertools
import json
import os
import random
import signal
import warnings

from vp import core, pipe

T = pipe.RDF_TYPE
D = os.path.join(core.WORK, "c16")

NS_POOL = ["http://ex.org/", "http://ex.org/a/", "http://ex.org/a/b#", "http://ex.org/a", "http://ex.org/ab",
           "http://other.org/ns#", "http://other.org/", "http://www.w3.org/1999/02/22-rdf-syntax-ns#",
           "http://www.w3.org/1999/02/", "http://ex.org/a/b", ""]
PRED_NS = ["http://ex.org/", "http://ex.org/a/", "http://ex.org/a/b#", "http://ex.org/ab", "http://other.org/ns#"]
# one stem, '#'- and '/'-terminated namespaces hanging from each other (a predicate of each agrees with a predicate
# of its parent up to the last '/', or up to the last '#')
STEM_NS = ["http://ex.org/", "http://ex.org/voc#", "http://ex.org/voc/", "http://ex.org/voc/sub#",
           "http://ex.org/voc/sub/", "http://ex.org/deep/", "http://ex.org/deep#"]
STEM_IGN = STEM_NS + ["http://ex.org/voc", "http://ex.org/voc/sub", "http://ex.org", "http://ex.org/voc#sub/",
                      "http://www.w3.org/1999/02/22-rdf-syntax-ns#"]
FILE_NAMES = ["part_2023", "part_2019", "b", "a", "z_last", "data", "data2", "10", "9", "Z", "m", "graph.part", "0_first"]


# --------------------------------------------------------------------------
# the property's notions, written from its text (independent of the model)
# --------------------------------------------------------------------------

def in_scope(o, targets):
    if o[0] == "L":
        return False
    return True if targets is None else (o[0] == "I" and o[1] in targets)


def restrict(ts, k, targets, tau=T):
    """the document without the typing triples of memberships beyond the first k instances of their class"""
    first = {}
    for s, p, o in ts:
        if p == tau and in_scope(o, targets):
            l = first.setdefault(o[1], [])
            if s[1] not in l:
                l.append(s[1])
    keep = {c: set(l[:k]) for c, l in first.items()}
    return [(s, p, o) for s, p, o in ts
            if not (p == tau and in_scope(o, targets) and s[1] not in keep[o[1]])], \
        {c: len(l) for c, l in first.items()}, keep


def direct_child(p, ns):
    return p.startswith(ns) and "/" not in p[len(ns):] and "#" not in p[len(ns):]


def ignored(p, nss):
    return any(direct_child(p, ns) for ns in nss)


def shape_local(c):
    return c[max(c.rfind("/"), c.rfind("#")) + 1:]


def occ_direct(ts, kept_doc, tau=T, targets=None):
    """header counts and occ (direct features) with membership read from kept_doc, features from ts"""
    inst = {}
    for s, p, o in kept_doc:
        if p == tau and in_scope(o, targets):
            inst.setdefault(s[1], []).append(o[1])
    cnt = {}
    for s, p, o in ts:
        if s[1] in inst:
            if p == tau:
                keys = [o[1]] if o[0] != "L" else []
            else:
                keys = [o[2] if o[0] == "L" else ("IRI" if o[0] == "I" else "BNode")]
                if o[0] != "L" and o[1] in inst:
                    keys += ["@" + pipe.DEFAULT_SHAPES_NS + shape_local(c) for c in inst[o[1]]]
            for kk in keys:
                cnt[(s[1], p, kk)] = cnt.get((s[1], p, kk), 0) + 1
    n = {}
    for i, cs in inst.items():
        for c in cs:
            n[c] = n.get(c, 0) + 1
    occ = {}
    for (i, p, kk), m in cnt.items():
        for c in inst[i]:
            for card in (["1"] if p == tau else [str(m), "+"]):
                occ[(c, p, kk, card)] = occ.get((c, p, kk, card), 0) + 1
    return n, occ


# --------------------------------------------------------------------------
# generators
# --------------------------------------------------------------------------

def gen_big(r, pred_ns=PRED_NS, nprops=(1, 4)):
    """bigger classes, interleaved typing triples, multi-typed nodes, predicates in nested namespaces"""
    ncls = r.randint(1, 3)
    classes = ["http://ex.org/C%d" % i for i in range(ncls)]
    nodes = [("I", "http://ex.org/n%d" % i) for i in range(r.randint(3, 9))] + \
            [("B", "_:b%d" % i) for i in range(r.choice([0, 0, 1, 2]))]
    props = [r.choice(pred_ns) + "p%d" % i for i in range(r.randint(*nprops))]
    ts, seen = [], set()

    def add(t):
        if t not in seen:
            seen.add(t)
            ts.append(t)
    for n in nodes:
        cs = [c for c in classes if r.random() < 0.6]
        for c in cs:
            add((n, T, ("I", c)))
    for n in nodes:
        for p in props:
            for _ in range(r.choice([0, 1, 1, 2])):
                k = r.random()
                if k < 0.4:
                    add((n, p, ("L", "v%d" % r.randint(0, 5), r.choice([pipe.XSD + "string", pipe.XSD + "integer"]))))
                elif k < 0.5:
                    add((n, p, ("I", "http://ex.org/u%d" % r.randint(0, 2))))
                else:
                    add((n, p, r.choice(nodes)))
    if r.random() < 0.15:   # a class node that is itself an instance (inverse-path feature of a typing triple)
        add((("I", classes[0]), T, ("I", classes[-1])))
    r.shuffle(ts)
    return ts


def class_sizes(ts, targets):
    n = {}
    for s, p, o in ts:
        if p == T and in_scope(o, targets):
            n.setdefault(o[1], set()).add(s[1])
    return {c: len(v) for c, v in n.items()}


def mode_variants(r, ts):
    classes = sorted({o[1] for s, p, o in ts if p == T and o[0] == "I"})
    out = [("all", None)]
    if classes:
        out.append(("targets_all", list(classes)))
        sub = r.sample(classes, r.randint(1, len(classes)))
        out.append(("targets_sub", sub))
        if r.random() < 0.3:
            out.append(("targets_absent", sub + ["http://ex.org/Absent"]))
    return out


def cfg_for(idx, targets, cap=-1):
    cfg = pipe.switch_cfg(idx)
    cfg["cap"] = cap
    if targets is not None:
        cfg["all_classes"] = False
        cfg["targets"] = list(targets)
    return cfg


def unsorted_names(r, n, ext):
    """n distinct names, NOT in sorted order when n >= 2"""
    names = [x + ext for x in r.sample(FILE_NAMES, n)]
    if n >= 2 and names == sorted(names):
        names.reverse()
    return names


def file_layout(r, ts):
    """how the document of a case is delivered: consecutive pieces of it, in this order, under names that do not
    sort in this order; 'files' = graph_list_of_files_input, 'zip' = one archive (members in this order), 'zips' =
    several archives (consecutive groups of the pieces)"""
    n = r.choice([2, 2, 3, 3, 4])
    cuts = sorted(r.randint(0, len(ts)) for _ in range(n - 1))
    if r.random() < 0.7:        # no empty piece, as far as the document allows
        cuts = sorted(set(c for c in cuts if 0 < c < len(ts))) or [len(ts) // 2]
    n = len(cuts) + 1
    layout = r.choice(["files", "files", "zip", "zips"])
    lay = {"layout": layout, "cuts": cuts, "names": unsorted_names(r, n, ".nt")}
    if layout == "zip":
        lay["as_list"] = r.random() < 0.5
    if layout == "zips":
        na = r.randint(2, n) if n >= 2 else 1
        gc = sorted(r.sample(range(1, n), na - 1)) if na > 1 else []
        lay["groups"] = gc
        lay["archives"] = unsorted_names(r, na, ".zip")
    return lay


def pieces_of(ts, lay):
    b = [0] + list(lay["cuts"]) + [len(ts)]
    return [ts[x:y] for x, y in zip(b, b[1:])]


def canonical_orderings(maxlen, ncls=3, ninst=4):
    out = []

    def rec(seq, mi, mc):
        if seq:
            out.append(tuple(seq))
        if len(seq) == maxlen:
            return
        for i in range(min(mi + 1, ninst - 1) + 1):
            for c in range(min(mc + 1, ncls - 1) + 1):
                if (i, c) in seq:
                    continue
                seq.append((i, c))
                rec(seq, max(mi, i), max(mc, c))
                seq.pop()
    rec([], -1, -1)
    return out


def graph_of_ordering(seq):
    """typing triples in the given order, a literal feature after an instance's first typing triple,
    a link between the first two instances at the end"""
    ts, seen = [], set()
    for i, c in seq:
        n = ("I", "http://ex.org/n%d" % i)
        ts.append((n, T, ("I", "http://ex.org/C%d" % c)))
        if i not in seen:
            seen.add(i)
            ts.append((n, "http://ex.org/p", ("L", "v", pipe.XSD + "string")))
            if i % 2:
                ts.append((n, "http://ex.org/q", ("L", "1", pipe.XSD + "integer")))
    ids = sorted(seen)
    if len(ids) > 1:
        ts.append((("I", "http://ex.org/n%d" % ids[0]), "http://ex.org/r", ("I", "http://ex.org/n%d" % ids[1])))
    return ts


def build_cases(tier, rnd):
    cases = []
    ngraphs = 170 if tier == "quick" else 2500
    idx = 0
    for gi in range(ngraphs):
        r = random.Random(rnd.random())
        kind = gi % 4
        if kind == 0:
            ts = pipe.gen_graph(r, general=True, max_nodes=7)
        elif kind == 1:
            ts = pipe.gen_graph(r, general=False, max_nodes=8)
        else:
            ts = gen_big(r)
        if gi % 23 == 7:   # out-of-domain stream: a typing triple with a literal object
            ts.insert(r.randint(0, len(ts)), (("I", "http://ex.org/lit"), T, ("L", "x", pipe.XSD + "string")))
        for mname, targets in mode_variants(r, ts):
            sizes = class_sizes(ts, targets)
            mx = max(sizes.values()) if sizes else 1
            for k in range(1, mx + 2):
                idx += 1
                cases.append({"kind": "cap", "src": "random", "mode": mname, "ts": ts, "cfg": cfg_for(idx, targets, k)})
                if kind >= 2 and k <= mx and r.random() < 0.6:
                    # the same document in several files given in an order that is not the sorted one
                    idx += 1
                    cases.append({"kind": "cap", "src": "multifile", "mode": mname, "ts": ts,
                                  "cfg": cfg_for(idx, targets, k), "files": file_layout(r, ts)})
        # ignored namespaces
        tsn = gen_big(r) if kind < 2 else ts
        for j in range(3):
            nss = r.sample(NS_POOL, r.randint(0, 3))
            mname, targets = r.choice(mode_variants(r, tsn))
            idx += 1
            cases.append({"kind": "ign", "src": "random", "mode": mname, "ts": tsn, "cfg": cfg_for(idx, targets),
                          "ign": nss})
        # '#'- and '/'-terminated namespaces of one stem, nested, statements in random order
        tss = gen_big(r, STEM_NS, (3, 6))
        for j in range(3):
            nss = r.sample(STEM_IGN, r.choice([1, 1, 2, 2, 3]))
            mname, targets = r.choice(mode_variants(r, tss))
            idx += 1
            c = {"kind": "ign", "src": "stem", "mode": mname, "ts": tss, "cfg": cfg_for(idx, targets), "ign": nss}
            if j == 2:
                c["ts"] = list(tss)
                r.shuffle(c["ts"])           # another order of the predicates over the same graph
            cases.append(c)
    return cases


def exhaustive_cases(tier):
    L = 5 if tier == "quick" else 6
    cases = []
    idx = 0
    for seq in canonical_orderings(L):
        ts = graph_of_ordering(seq)
        classes = sorted({"http://ex.org/C%d" % c for _, c in seq})
        for mname, targets in (("all", None), ("targets_all", classes), ("targets_first", classes[:1])):
            sizes = class_sizes(ts, targets)
            for k in range(1, max(sizes.values()) + 2):
                idx += 1
                cfg = cfg_for(16 if idx % 3 else idx, targets, k)   # inverse_paths on in 2 of 3
                cases.append({"kind": "cap", "src": "exhaustive", "mode": mname, "ts": ts, "cfg": cfg})
    return cases, L


# --------------------------------------------------------------------------
# running one case (worker side)
# --------------------------------------------------------------------------

_MB = None
_DIR = None


def _mb():
    global _MB
    if _MB is None:
        _MB = core.ModelBin()
    return _MB


def _dir():
    global _DIR
    if _DIR is None:
        _DIR = os.path.join(D, "w%d" % os.getpid())
        os.makedirs(_DIR, exist_ok=True)
    return _DIR


class _Hang(Exception):
    pass


def _alarm(signum, frame):
    raise _Hang()


def write_sources(d, pieces, lay):
    """writes the pieces of a document as the layout says; returns the Shaper's source arguments"""
    import zipfile
    docs = [pipe.nt_doc(p) for p in pieces]
    if lay["layout"] == "files":
        paths = []
        for name, doc in zip(lay["names"], docs):
            paths.append(os.path.join(d, name))
            with open(paths[-1], "w") as f:
                f.write(doc)
        return {"graph_list_of_files_input": paths}
    if lay["layout"] == "zip":
        path = os.path.join(d, "g.zip")
        with zipfile.ZipFile(path, "w") as z:
            for name, doc in zip(lay["names"], docs):
                z.writestr(name, doc)
        return dict({"graph_list_of_files_input": [path]} if lay["as_list"] else {"graph_file_input": path},
                    compression_mode="zip")
    b = [0] + list(lay["groups"]) + [len(docs)]
    paths = []
    for an, x, y in zip(lay["archives"], b, b[1:]):
        paths.append(os.path.join(d, an))
        with zipfile.ZipFile(paths[-1], "w") as z:
            for name, doc in list(zip(lay["names"], docs))[x:y]:
                z.writestr(name, doc)
    return {"graph_list_of_files_input": paths, "compression_mode": "zip"}


def real_run(cfg, gdoc, idoc=None, extra=None, omit=(), sources=None):
    """Shaper over files: graph_file_input (+ instances_file_input), or the source arguments of write_sources;
    ('ok', text) | ('err', class)"""
    from shexer.shaper import Shaper
    warnings.filterwarnings("ignore")
    d = _dir()
    gp = os.path.join(d, "g.nt")
    if sources is None:
        with open(gp, "w") as f:
            f.write(gdoc)
        sources = {"graph_file_input": gp}
    ip = None
    if idoc is not None:
        ip = os.path.join(d, "i.nt")
        with open(ip, "w") as f:
            f.write(idoc)
    kw = pipe.shaper_kwargs(cfg)
    if extra:
        kw.update(extra)
    for name in omit:      # leave the option at the Shaper's own default
        kw.pop(name, None)
    k, m = cfg["thr"]
    old = signal.signal(signal.SIGALRM, _alarm)
    signal.setitimer(signal.ITIMER_REAL, 10.0)
    try:
        sh = Shaper(instances_file_input=ip, **dict(kw, **sources))
        return ("ok", sh.shex_graph(string_output=True, acceptance_threshold=(k / m)))
    except _Hang:
        return ("err", "Hang")
    except Exception as e:  # noqa: BLE001
        return ("err", type(e).__name__)
    finally:
        signal.setitimer(signal.ITIMER_REAL, 0)
        signal.signal(signal.SIGALRM, old)


def model_run(entry, table, decimals):
    row = _mb().call(entry, table)[0]
    if row[0] == "ok":
        return ("ok", pipe.shim(row[1], decimals)), row
    return ("err", row[1]), row


def figures_ok(text, ts, kept_doc, targets, plus_rewritten=False):
    """header counts and the direct figures printed with an exact or '+' cardinality vs occ on the kept subset"""
    n, occ = occ_direct(ts, kept_doc, targets=targets)
    byname = {pipe.DEFAULT_SHAPES_NS + shape_local(c): c for c in set(n) | set(targets or [])}
    bad = []
    nfig = 0
    for sh in pipe.canon(text)["shapes"]:
        c = byname.get(sh["label"])
        if c is None:
            bad.append(("unknown shape", sh["label"]))
            continue
        if sh["n"] is not None:
            nfig += 1
            if sh["n"] != n.get(c, 0):
                bad.append(("header", c, sh["n"], n.get(c, 0)))
        for cons in sh["constraints"]:
            if cons["inv"]:
                continue
            figs = []
            if len(cons["values"]) == 1:
                figs.append((cons["values"][0], cons["card"], cons["fig"][1]))
            for cm in cons["comments"]:
                if "fig" in cm and cm.get("obj"):
                    figs.append((cm["obj"], cm["card"], cm["fig"][1]))
            for val, card, cnt in figs:
                if cnt is None or val in ("NONLITERAL", ".") or card in ("?", "*"):
                    continue
                if plus_rewritten and card == "+":
                    continue   # disable_exact_cardinality prints {n} as + and keeps the figure of {n} (C01's card0)
                kk = val[1:-1] if val.startswith("[") else val
                cd = card.strip("{}")
                nfig += 1
                if occ.get((c, cons["pred"], kk, cd), 0) != cnt:
                    bad.append(("figure", c, cons["pred"], kk, cd, cnt, occ.get((c, cons["pred"], kk, cd), 0)))
    return bad, nfig


def eval_case(case):
    ts, cfg = case["ts"], case["cfg"]
    targets = None if cfg["all_classes"] else cfg["targets"]
    doc = pipe.nt_doc(ts)
    res = {"oracle": [], "nfig": 0, "runs": 0}
    if case["kind"] == "cap":
        k = cfg["cap"]
        if case.get("files"):
            # the files as given ARE the document: everything below is judged against their concatenation
            a = real_run(cfg, None, sources=write_sources(_dir(), pieces_of(ts, case["files"]), case["files"]))
        else:
            a = real_run(cfg, doc)
        res["impl"] = a
        m, raw = model_run("pipe_shexc", pipe.model_table(ts, cfg), cfg["decimals"])
        res["model"] = m
        res["model_raw"] = raw
        rdoc, sizes, keep = restrict(ts, k, targets)
        # the Spec's restrict_typing evaluated by the model binary: must equal the Python oracle's
        bits = [x[0] for x in _mb().call("c16_restrict", pipe.model_table(ts, cfg))]
        want = []
        rset = list(rdoc)
        j = 0
        for t in ts:
            if j < len(rset) and rset[j] == t:
                want.append("1")
                j += 1
            else:
                want.append("0")
        res["spec_restrict_agrees"] = (bits == want)
        nocap = dict(cfg)
        nocap["cap"] = -1
        b = real_run(nocap, doc, idoc=pipe.nt_doc(rdoc))
        res["runs"] = 2
        if a != b:
            res["oracle"].append({"what": "cap run differs from uncapped run on restricted instance document",
                                  "with_option": a, "on_restricted": b})
        rs = set(rdoc)
        deleted = [t for t in ts if t not in rs]
        kept_nodes = {i for c, l in keep.items() for i in l}
        res["bites"] = bool(deleted)
        plain_dom = all(s[1] not in kept_nodes and o[1] not in kept_nodes for s, p, o in deleted)
        res["plain_dom"] = plain_dom
        if plain_dom and deleted:
            c = real_run(nocap, pipe.nt_doc(rdoc))
            res["runs"] += 1
            if a != c:
                res["oracle"].append({"what": "cap run differs from uncapped run on the restricted document (both passes)",
                                      "with_option": a, "on_restricted": c})
        if not deleted:
            c = real_run(nocap, doc, omit=("instances_cap",))
            res["runs"] += 1
            if a != c:
                res["oracle"].append({"what": "a cap not smaller than any class changed the output",
                                      "with_option": a, "without": c})
        if a[0] == "ok":
            bad, nfig = figures_ok(a[1], ts, rdoc, targets, cfg["disable_exact_cardinality"])
            res["nfig"] = nfig
            if bad:
                res["oracle"].append({"what": "figure or header count not exact for the kept subset", "bad": bad[:5]})
            got = {s["label"]: s["n"] for s in pipe.canon(a[1])["shapes"]}
            for c, sz in sizes.items():
                lab = pipe.DEFAULT_SHAPES_NS + shape_local(c)
                if lab in got and got[lab] is not None and got[lab] != min(k, sz):
                    res["oracle"].append({"what": "header count != min(k, |class|)", "class": c, "k": k, "size": sz,
                                          "printed": got[lab]})
    else:
        nss = case["ign"]
        a = real_run(cfg, doc, extra={"namespaces_to_ignore": list(nss)})
        res["impl"] = a
        m, raw = model_run("pipe_shexc_ign", pipe.model_table(ts, cfg) + [["X", x] for x in nss], cfg["decimals"])
        res["model"] = m
        res["model_raw"] = raw
        fts = [t for t in ts if not ignored(t[1], nss)]
        b = real_run(cfg, pipe.nt_doc(fts), idoc=doc)
        res["runs"] = 2
        res["bites"] = len(fts) < len(ts)
        res["deeper_kept"] = any(any(t[1].startswith(ns) and ns for ns in nss) for t in fts)
        res["tau_ignored"] = ignored(cfg["tau"], nss)
        if a != b:
            res["oracle"].append({"what": "namespaces_to_ignore differs from deleting the child-predicate triples "
                                          "(membership from the full graph)", "with_option": a, "on_restricted": b})
        if not res["tau_ignored"]:
            c = real_run(cfg, pipe.nt_doc(fts))
            res["runs"] += 1
            if a != c:
                res["oracle"].append({"what": "namespaces_to_ignore differs from the run on the filtered document",
                                      "with_option": a, "on_restricted": c})
    return res


def corpus_cases():
    """pinned regression cases (reproducers of fixed findings): run first, must pass"""
    out = []
    d = os.path.join(core.VERIF, "corpus", "C16")
    if os.path.isdir(d):
        for fn in sorted(os.listdir(d)):
            if fn.endswith(".json"):
                with open(os.path.join(d, fn)) as f:
                    for c in json.load(f)["cases"]:
                        c["ts"] = [(tuple(s), p, tuple(o)) for s, p, o in c["ts"]]
                        c["cfg"]["thr"] = tuple(c["cfg"]["thr"])
                        out.append(c)
    return out


def root_cause(case, res):
    """C16-F1 (fixed in /repo; only attributed while the finding is still listed as known): pure
    target_classes mode + cap + a typing triple with a literal object: the cap's
    _check_class_counts raised AttributeError where the uncapped run ignores the triple"""
    cfg = case["cfg"]
    if case["kind"] == "cap" and not cfg["all_classes"] and cfg["cap"] > 0 and \
            any(p == cfg["tau"] and o[0] == "L" for s, p, o in case["ts"]) and \
            res["impl"] == ("err", "AttributeError"):
        return "C16-F1"
    return None


# --------------------------------------------------------------------------
# unit-level correspondence of the namespace test
# --------------------------------------------------------------------------

def child_rows(tier):
    alpha = "a/#:"
    L = 4 if tier == "quick" else 5
    strs = [""] + ["".join(x) for n in range(1, L + 1) for x in itertools.product(alpha, repeat=n)]
    nss = [""] + ["".join(x) for n in range(1, 4) for x in itertools.product(alpha, repeat=n)]
    rows = [[p, ns] for p in strs for ns in nss]
    rows += [[p, n1, n2] for p in strs[:200] for n1 in nss[:20] for n2 in nss[:20]]
    return rows


def run(tier, seed, replay=None):
    run = core.Run("C16", tier, seed)
    bs = core.build("C16")
    proofs_ok = core.proof_gate(run, bs)
    rnd = random.Random(seed)
    os.makedirs(D, exist_ok=True)
    findings = {f["id"]: f for f in core.load_findings("C16")}

    if not bs.model_ok:
        run.notes.append("model binary unavailable: " + bs.model_log[-800:])
        run.violation("model no longer builds", {"broken": "Model/Entry extraction", "log": bs.model_log[-1500:]},
                      failing_input=False)
        return run.finish(bs)

    L = None
    if replay:
        with open(replay) as f:
            rp = json.load(f)
        c = rp["case"]
        c["ts"] = [(tuple(s), p, tuple(o)) for s, p, o in c["ts"]]
        c["cfg"]["thr"] = tuple(c["cfg"]["thr"])
        cases = [c]
    else:
        cases = corpus_cases() + build_cases(tier, rnd)
        ex, L = exhaustive_cases(tier)
        cases += ex
    results = core.pool_map(eval_case, cases, chunksize=32)

    spec_fail, corr_fail, known_hits = [], [], {}
    dist = {"cap": 0, "ign": 0, "exhaustive": 0, "impl_err": 0, "cap_bites": 0, "ign_bites": 0, "plain_domain": 0,
            "deeper_kept": 0, "tau_ignored": 0, "early_stop_mode": 0, "multifile": 0, "multifile_cap_bites": 0,
            "multifile_zip": 0, "stem_family": 0, "stem_family_bites": 0}
    nontrivial = set()
    real_runs = 0
    nfig = 0
    for i, (c, r) in enumerate(zip(cases, results)):
        dist[c["kind"]] += 1
        dist["exhaustive"] += c["src"] == "exhaustive"
        dist["impl_err"] += r["impl"][0] == "err"
        real_runs += r["runs"]
        nfig += r["nfig"]
        if c.get("files"):
            dist["multifile"] += 1
            dist["multifile_cap_bites"] += r["bites"]
            dist["multifile_zip"] += c["files"]["layout"] != "files"
        if c["src"] == "stem":
            dist["stem_family"] += 1
            dist["stem_family_bites"] += r["bites"]
        if c["kind"] == "cap":
            dist["cap_bites"] += r["bites"]
            dist["plain_domain"] += bool(r["bites"] and r["plain_dom"])
            dist["early_stop_mode"] += not c["cfg"]["all_classes"]
            if not r["spec_restrict_agrees"]:
                run.internal_errors.append("Python restrict() and Spec.restrict_typing (c16_restrict) disagree on case %d" % i)
        else:
            dist["ign_bites"] += r["bites"]
            dist["deeper_kept"] += bool(r["bites"] and r["deeper_kept"])
            dist["tau_ignored"] += r["tau_ignored"]
        if r["bites"]:
            nontrivial.add(json.dumps([c["kind"], c["ts"], c["cfg"]["cap"], c["cfg"]["targets"], c.get("ign")],
                                      sort_keys=True, default=str))
        if r["oracle"]:
            rc = root_cause(c, r)
            if rc is not None and rc in findings and findings[rc].get("status") == "known":
                known_hits[rc] = known_hits.get(rc, 0) + 1
            else:
                spec_fail.append(i)
        if r["model"] != r["impl"]:
            corr_fail.append(i)

    # the namespace test alone, bounded-exhaustive against the real function
    child_n = child_bad = 0
    if not replay:
        from shexer.utils.triple_yielders import check_if_property_belongs_to_namespace_list as real_child
        rows = child_rows(tier)
        mb = core.ModelBin()
        out = mb.call("c16_child", rows)
        child_n = len(rows)
        for row, o in zip(rows, out):
            real = real_child(row[0], row[1:])
            want = ignored(row[0], row[1:])
            if real != want:
                run.violation("check_if_property_belongs_to_namespace_list is not 'direct child of a listed namespace'",
                              {"p": row[0], "namespaces": row[1:], "impl": real, "spec": want})
                break
            if (o[0] == "1") != real:
                child_bad += 1
                if child_bad == 1:
                    first_child = {"p": row[0], "namespaces": row[1:], "impl": real, "model": o[0]}
        # vm_compute cross-check of a sample of the binary's answers
        idx = rnd.sample(range(len(cases)), min(len(cases), 60 if tier == "quick" else 300))
        vm_cases = []
        for i in idx:
            c = cases[i]
            if c["kind"] == "cap":
                vm_cases.append(("pipe_shexc", pipe.model_table(c["ts"], c["cfg"]), [results[i]["model_raw"]]))
            else:
                vm_cases.append(("pipe_shexc_ign", pipe.model_table(c["ts"], c["cfg"]) + [["X", x] for x in c["ign"]],
                                 [results[i]["model_raw"]]))
        vm_cases.append(("c16_child", rows[:400], out[:400]))
        vm_n, mism, log = core.vm_crosscheck(vm_cases, "c16", per_file=4)
        if mism:
            run.internal_errors.append("extracted binary and vm_compute disagree (C16): %s %s" % (mism[:5], log[-300:]))
        mb.close()
    else:
        vm_n = 0

    # known findings: replay pinned reproducers on the real code
    for fid, f in findings.items():
        if f.get("status") != "known":
            continue
        rp = f["reproducer"]
        ts = [(tuple(s), p, tuple(o)) for s, p, o in rp["triples"]]
        cfg = cfg_for(0, rp["targets"], rp["cap"])
        with_cap = real_run(cfg, pipe.nt_doc(ts))
        cfg0 = dict(cfg)
        cfg0["cap"] = -1
        without = real_run(cfg0, pipe.nt_doc(ts))
        if with_cap != without:
            run.known_finding(fid, "%s -> with cap %d: %s; without: %s" % (
                f["what"][:160], rp["cap"], with_cap[1][:40].replace("\n", " "), without[0]))
        else:
            run.notes.append("finding %s no longer reproduces" % fid)

    def payload(i):
        c, r = cases[i], results[i]
        d = {"case": {"kind": c["kind"], "src": c["src"], "mode": c["mode"], "ts": c["ts"], "cfg": c["cfg"],
                      "ign": c.get("ign")},
             "nt_document": pipe.nt_doc(c["ts"]), "impl": r["impl"], "model": r["model"], "oracle": r["oracle"]}
        if c.get("files"):
            lay = c["files"]
            d["case"]["files"] = lay
            d["files_in_the_order_given"] = [[name, pipe.nt_doc(piece)] for name, piece in
                                             zip(lay["names"], pieces_of(c["ts"], lay))]
            d["delivery"] = {"files": "graph_list_of_files_input = the files, in this order",
                             "zip": "one zip archive, members written in this order (compression_mode='zip')",
                             "zips": "zip archives %r holding consecutive groups of the files (cut at %r), "
                                     "graph_list_of_files_input = the archives in this order" % (
                                         lay.get("archives"), lay.get("groups"))}[lay["layout"]]
        return d

    spec_fail.sort(key=lambda i: (len(cases[i]["ts"]), i))   # smallest failing inputs first
    for i in spec_fail[:5]:
        run.violation(results[i]["oracle"][0]["what"], payload(i))
    if not spec_fail and not run.violations:
        if corr_fail or child_bad:
            corr_fail.sort(key=lambda i: (len(cases[i]["ts"]), i))
            if corr_fail:
                p = payload(corr_fail[0])
                p["broken"] = "correspondence Model (Tracker.track/NsFilter/Run2 via %s) vs shexer.Shaper" % (
                    "pipe_shexc" if cases[corr_fail[0]]["kind"] == "cap" else "pipe_shexc_ign")
            else:
                p = {"broken": "correspondence NsFilter.child_of_ns vs check_if_property_belongs_to_namespace_list",
                     "first_case": first_child}
            p["n_disagreements"] = len(corr_fail) + child_bad
            run.violation("correspondence model vs implementation no longer checks", p, failing_input=False)
        elif not proofs_ok:
            run.violation("proof obligations of C16 no longer check",
                          {"broken": "theorems of Props/C16.v", "log": run.notes[-1] if run.notes else ""},
                          failing_input=False)

    pick = [i for i in (0, len(cases) // 3, len(cases) // 2, len(cases) - 1) if 0 <= i < len(cases)]
    run.coverage.update({
        "evaluations": len(cases) + child_n,
        "real_shaper_runs": real_runs,
        "figures_recomputed": nfig,
        "distinct_nontrivial": len(nontrivial),
        "rule": "pipeline cases: pipe.gen_graph (general / schema-consistent) and gen_big graphs x every cap 1..max class "
                "size+1 x {all_classes, target_classes = all classes, a random subset, a subset plus an absent class} x "
                "rotating 64 switch sets; ignored-namespace sets drawn from a pool with nested namespaces, namespaces "
                "without trailing separator, the rdf namespace and the empty string, and from a stem family of '#'- and "
                "'/'-terminated namespaces hanging from each other over graphs using 3..6 predicates of that family "
                "(statements shuffled, the same graph in two statement orders); cap cases of the gen_big graphs also "
                "delivered as 2..4 N-Triples files / zip members / zip archives whose names do not sort in the order "
                "given (every path distinct), judged against the concatenation in the order given.  Non-trivial = distinct inputs where "
                "the option changes what is read (the cap deletes >= 1 typing triple / the filter deletes >= 1 triple).  "
                "Namespace test: every p of length <= %d over {a,/,#,:} x every namespace of length <= 3 (+ pairs)" % (
                    4 if tier == "quick" else 5),
        "exhaustive": False,
        "exhaustive_part": None if not L else
        "every ordering up to renaming of <= %d typing triples over <= 3 classes x <= 4 instances (%d orderings) x caps "
        "1..max+1 x {all_classes, target_classes = all, target_classes = [first class]}" % (L, len(canonical_orderings(L))),
        "distribution": dist,
        "known_finding_hits": known_hits,
        "vm_compute_crosschecked": vm_n,
        "namespace_test_rows": child_n,
        "disagreements_model_vs_impl": len(corr_fail) + child_bad,
        "samples": [{"kind": cases[i]["kind"], "mode": cases[i]["mode"], "cap": cases[i]["cfg"]["cap"],
                     "targets": None if cases[i]["cfg"]["all_classes"] else cases[i]["cfg"]["targets"],
                     "ign": cases[i].get("ign"), "nt_document": pipe.nt_doc(cases[i]["ts"]),
                     "impl": results[i]["impl"][1][:300]} for i in pick],
    })
    run.assumptions = [
        "graphs are duplicate-free and node strings identify nodes (NoDup g, ids_faithful g); typing triples with a "
        "literal object are generated too (out-of-domain stream): both runs of a pair must fail or succeed alike",
        "the restricted document is handed to the instance pass through instances_file_input (NT files under work/c16)",
        "multi-file cases: every path of the list is distinct (the same path given twice is read twice: C08's subject); "
        "the model of a multi-file run is the model of the concatenation (C08's partition theorems)",
        "the rest of the pipeline (profiler, shexer, serialiser) is the frozen model validated by the pipeline "
        "correspondence; C16's theorems use it only through run_shexc2's shape (only the tracker reads r_cap / g_inst)"]
    try:
        import shutil
        shutil.rmtree(D, ignore_errors=True)
    except Exception:
        pass
    return run.finish(bs)
