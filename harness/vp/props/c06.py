"""C06 -- the N-Triples reader yields exactly the triples of the document.

Theorem: Props/C06.v (C06 / C06_document / C06_terminates = the full property once every repair
is in VERIF_REPO; until then C06_partial on C06_dom_cur, C06_document_partial,
C06_terminates_partial, one C06_F*_refuted per root cause).
Flags (Gen.Consts, regenerated from VERIF_REPO, asked from the model through c06_info):
nt_fixed_tok, nt_fixed_dlt, nt_tok_end_at_hash, nt_uri_unclosed_to_eol.  With nt_tok_end_at_hash
no root cause is excused any more: every valid line of the stream must be read right.  With
nt_uri_unclosed_to_eol no real call may run into the alarm, whatever the line holds.
nt_skips_comment_lines (finding C06-F9 until it holds): documents are lists of statement lines,
comment lines and blank lines (Spec.NtSyntax.dline), read from a raw string and from a file; the
oracle is the list of the statements' triples, zero error lines (C06_document_lines).
Correspondence: bounded-exhaustive, Model.NtReader vs shexer's NtTriplesYielder on
every line rendered from (lexical form over the adversarial alphabet) x suffix
forms x separator layouts x blank/no blank before the dot x comment variants x
IRI/BNode subject; plus focused adversarial comments / datatypes and random
longer statements.  Every real call is guarded by SIGALRM.
Oracle: the expected kinded triple is computed here from the abstract triple the
line was generated from (property text), never from the model; the generator is
cross-checked with rdflib's N-Triples parser and with Spec.NtSyntax.nt_line.
The domain classifier is the Gallina C06_dom / root_causes evaluated by the
model binary (entry c06_spec).
"""
import collections
import itertools
import json
import os
import random
import signal
import time
import warnings

from vp import core

XSD = "http://www.w3.org/2001/XMLSchema#"
XSD_STRING = XSD + "string"
LANG_STRING = "http://www.w3.org/1999/02/22-rdf-syntax-ns#langString"

# ---- the adversarial alphabet of lexical-form symbols: name -> list of items
# item = ("c", byte-string of ONE character) | ("e", char) | ("u", 4 hex) | ("U", 8 hex)
SYM = collections.OrderedDict([
    ("a", [("c", "a")]), ("7", [("c", "7")]), ("_", [("c", "_")]), (" ", [("c", " ")]),
    ("@", [("c", "@")]), ("^^", [("c", "^"), ("c", "^")]), ("#", [("c", "#")]),
    (" .", [("c", " "), ("c", ".")]), ("<", [("c", "<")]), (">", [("c", ">")]),
    ("xsd:", [("c", x) for x in "xsd:"]), ("geo:", [("c", x) for x in "geo:"]),
    ('\\"', [("e", '"')]), ("\\\\", [("e", "\\")]), ("é", [("c", "é")]),
    ("\\u00e9", [("u", "00e9")]),
])
ALPHA = list(SYM)
EXTRA_SYM = collections.OrderedDict([
    ("\t", [("c", "\t")]), ("rdf:", [("c", x) for x in "rdf:"]), ("dt:", [("c", x) for x in "dt:"]),
    ("\\n", [("e", "n")]), ("\\'", [("e", "'")]), ("\\U0001F600", [("U", "0001F600")]),
    ("\U0001F600", [("c", "\U0001F600")]), (".", [("c", ".")]), ("%", [("c", "%")]), ("'", [("c", "'")]),
    ("^", [("c", "^")]), ("http://www.w3.org/2001/XMLSchema#", [("c", x) for x in XSD]),
    # characters that str.splitlines() / str.strip() treat specially but N-Triples allows inside a literal
    ("\x0c", [("c", "\x0c")]), ("\u2028", [("c", "\u2028")]), ("\x85", [("c", "\x85")]), ("\x1c", [("c", "\x1c")]),
    ("\x0b", [("c", "\x0b")]),
])
FOCUS_ALPHA = ALPHA + ["\t", "rdf:", "dt:", ".", "\x0c", "\u2028", "\x85"]
ALLSYM = dict(SYM)
ALLSYM.update(EXTRA_SYM)

SUFFIXES = [("P", ""), ("L", "en"), ("L", "en-GB"), ("T", "http://e/dt")]
SEPS = [(" ", " "), ("\t", "\t"), ("  ", " \t")]
PREDOTS = ["", " "]
COMMENTS3 = [None, (" ", " c"), (" ", ' "q" a@b ^^<x> 1. _:c')]
SUBJECTS = [("I", "http://e/s#a@b_c:d"), ("B", "b1")]
PRED = "http://e/p#a@b_c:d"

# secondary enumeration (lexical forms of <= 2 items): focused comments, more suffixes, more layouts
COMMENTS_FOCUS = [("", ""), ("", "@"), (" ", ' "'), (" ", " ^^"), (" ", " <"), (" ", " <x>"), (" ", " 1"), (" ", " _:x"),
                  (" ", " ."), ("", '"^^<x>'), ("\t", " x@y \"z\""), (" ", " \"z\" x@y"), (" ", " c.")]
SUFFIXES_FOCUS = [("T", XSD + "integer"), ("T", "http://e/a@b"), ("T", "http://e/dt:x"), ("T", "urn:xsd:int"),
                  ("T", "http://e/é"), ("T", "http://www.opengis.net/ont/geosparql#wktLiteral"),
                  ("L", "x-1a"), ("T", "http://e/a%20b")]
OBJ_NODES = [("I", "http://e/o#a@b_c:d"), ("I", "http://e/é"), ("B", "b2"), ("B", "a.b-c_d:e"), ("B", "éx")]


class Case(object):
    __slots__ = ("sk", "sid", "pred", "ok", "oval", "items", "sep1", "sep2", "predot", "comment")

    def __init__(self, sk, sid, pred, ok, oval, items, sep1, sep2, predot, comment):
        self.sk, self.sid, self.pred, self.ok, self.oval = sk, sid, pred, ok, oval
        self.items, self.sep1, self.sep2, self.predot, self.comment = items, sep1, sep2, predot, comment

    def tup(self):
        return (self.sk, self.sid, self.pred, self.ok, self.oval, [list(i) for i in self.items], self.sep1, self.sep2,
                self.predot, list(self.comment) if self.comment else None)

    @staticmethod
    def of_tup(t):
        return Case(t[0], t[1], t[2], t[3], t[4], tuple(tuple(i) for i in t[5]), t[6], t[7], t[8],
                    tuple(t[9]) if t[9] else None)


def items_of(syms):
    out = []
    for s in syms:
        out.extend(ALLSYM[s])
    return tuple(out)


# ---- generator-side rendering (N-Triples grammar), independent of Spec/ and Model/
def render_item(it):
    k, v = it
    if k == "c":
        return v
    if k == "e":
        return "\\" + v
    if k == "u":
        return "\\u" + v
    return "\\U" + v


def render_node(k, v):
    return "<" + v + ">" if k == "I" else "_:" + v


def render_obj(c):
    if c.ok in ("I", "B"):
        return render_node(c.ok, c.oval)
    lex = "".join(render_item(i) for i in c.items)
    if c.ok == "P":
        return '"' + lex + '"'
    if c.ok == "L":
        return '"' + lex + '"@' + c.oval
    return '"' + lex + '"^^<' + c.oval + ">"


def render_line(c):
    tail = "" if c.comment is None else c.comment[0] + "#" + c.comment[1]
    return render_node(c.sk, c.sid) + c.sep1 + "<" + c.pred + ">" + c.sep2 + render_obj(c) + c.predot + "." + tail


# ---- the oracle: what the RDF semantics of the statement says (property text)
def expected(c):
    s = ["IRI", c.sid] if c.sk == "I" else ["BNode", "_:" + c.sid]
    if c.ok == "I":
        o = ["IRI", c.oval]
    elif c.ok == "B":
        o = ["BNode", "_:" + c.oval]
    elif c.ok == "P":
        o = ["Literal", XSD_STRING]
    elif c.ok == "L":
        o = ["Literal", LANG_STRING]
    else:
        o = ["Literal", c.oval]
    return s + [c.pred] + o


def kinded_of_obs(tr):
    """drop the literal content from an observed triple"""
    s = tr[0:2]
    rest = tr[2:]
    p = rest[0]
    o = rest[1:]
    if o[0] == "Literal":
        o = ["Literal", o[2]]
    return s + [p] + o


def spec_ok(obs, c):
    """the property on one line: exactly the kinded triple, zero error lines, terminates"""
    return obs[0] == "D" and obs[1] == 0 and len(obs[2]) == 1 and kinded_of_obs(obs[2][0]) == expected(c)


# ---- model row encodings
def enc_items(items):
    out = []
    for k, v in items:
        if k == "c":
            b = v.encode("utf-8")
            out.append(b"".join(b"c" + bytes([x]) for x in b))
        elif k == "e":
            out.append(b"e" + v.encode("ascii"))
        elif k == "u":
            out.append(b"u" + v.encode("ascii"))
        else:
            out.append(b"U" + v.encode("ascii"))
    return b"".join(out)


def spec_row(c):
    return [c.sk, c.sid, c.pred, c.ok, c.oval, enc_items(c.items), c.sep1, c.sep2, c.predot,
            "1" if c.comment else "0", c.comment[0] if c.comment else "", c.comment[1] if c.comment else ""]


def parse_doc_row(r):
    """c06_doc output -> (status, errors, [triples])"""
    st, errs, n = r[0], int(r[1]), int(r[2])
    trs = []
    cur = []
    for f in r[3:]:
        if f == "|":
            trs.append(cur)
            cur = []
        else:
            cur.append(f)
    return (st, errs, trs)


# ---- the implementation side
class _Timeout(BaseException):
    pass


def _on_alarm(*a):
    raise _Timeout()


def _term(t):
    n = type(t).__name__
    if n == "IRI":
        return ["IRI", str(t)]
    if n == "BNode":
        return ["BNode", str(t)]
    if n == "Literal":
        return ["Literal", str(t), t.elem_type]
    return [n, str(t)]


def impl_doc(doc, timeout=2.0, **kw):
    """run the real reader on a document; (status, error_triples, [triples])"""
    from shexer.io.graph.yielder.nt_triples_yielder import NtTriplesYielder
    signal.signal(signal.SIGALRM, _on_alarm)
    out = []
    y = None
    signal.setitimer(signal.ITIMER_REAL, timeout)
    try:
        y = NtTriplesYielder(raw_graph=doc, **kw)
        for s, p, o in y.yield_triples():
            out.append(_term(s) + [str(p)] + _term(o))
        signal.setitimer(signal.ITIMER_REAL, 0)
        return ("D", y.error_triples, out)
    except _Timeout:
        return ("H", y.error_triples if y else 0, out)
    except Exception as e:  # noqa
        signal.setitimer(signal.ITIMER_REAL, 0)
        return ("R:" + type(e).__name__, y.error_triples if y else 0, out)
    finally:
        signal.setitimer(signal.ITIMER_REAL, 0)


def impl_file(path, timeout=2.0):
    from shexer.io.graph.yielder.nt_triples_yielder import NtTriplesYielder
    signal.signal(signal.SIGALRM, _on_alarm)
    out = []
    y = None
    signal.setitimer(signal.ITIMER_REAL, timeout)
    try:
        y = NtTriplesYielder(source_file=path)
        for s, p, o in y.yield_triples():
            out.append(_term(s) + [str(p)] + _term(o))
        return ("D", y.error_triples, out)
    except _Timeout:
        return ("H", y.error_triples if y else 0, out)
    except Exception as e:  # noqa
        return ("R:" + type(e).__name__, y.error_triples if y else 0, out)
    finally:
        signal.setitimer(signal.ITIMER_REAL, 0)


_MB = None
_UNPREDICTED_HANGS = [0]    # per process: after a few hangs the model did not predict, stop waiting 2 s for each


def _mb():
    """one model process per OS process (a forked worker must not share its parent's pipe)"""
    global _MB
    if _MB is None or _MB[0] != os.getpid():
        _MB = (os.getpid(), core.ModelBin())
    return _MB[1]


def _rdflib_can(c):
    """rdflib's N-Triples parser only knows ASCII blank-node labels"""
    return not ((c.sk == "B" and not c.sid.isascii()) or (c.ok == "B" and not c.oval.isascii()))


def rdflib_kinded(line):
    import rdflib
    g = rdflib.Graph()
    g.parse(data=line + "\n", format="nt")
    trs = list(g)
    if len(trs) != 1:
        return None
    s, p, o = trs[0]

    def k(t, is_obj):
        if isinstance(t, rdflib.URIRef):
            return ["IRI", str(t)]
        if isinstance(t, rdflib.BNode):
            return ["BNode", None]
        if t.language:
            return ["Literal", LANG_STRING]
        return ["Literal", str(t.datatype) if t.datatype else XSD_STRING]
    return k(s, False) + [str(p)] + k(o, True)


# ---- enumeration
def lex_forms(maxitems, alphabet=ALPHA):
    for n in range(maxitems + 1):
        for syms in itertools.product(alphabet, repeat=n):
            yield syms


def cases_main(syms):
    """the main product for one lexical form"""
    items = items_of(syms)
    for (ok, oval) in SUFFIXES:
        for (s1, s2) in SEPS:
            for pd in PREDOTS:
                for cm in COMMENTS3:
                    for (sk, sid) in SUBJECTS:
                        yield Case(sk, sid, PRED, ok, oval, items, s1, s2, pd, cm)


def cases_focus(syms):
    """secondary product (short lexical forms): focused comments, more datatypes/tags"""
    items = items_of(syms)
    for (ok, oval) in SUFFIXES + SUFFIXES_FOCUS:
        for pd in PREDOTS + ["\t "]:
            for cm in [None] + COMMENTS_FOCUS:
                if cm == (" ", " <") and len(syms) > 1:
                    continue    # an unterminated '<' makes the real reader loop forever: keep those lines few
                yield Case("I", "http://e/s", PRED, ok, oval, items, " ", " ", pd, cm)


def cases_nodes():
    for (ok, oval) in OBJ_NODES:
        for (s1, s2) in SEPS:
            for pd in PREDOTS + ["\t "]:
                for cm in [None] + COMMENTS3[1:] + COMMENTS_FOCUS:
                    for (sk, sid) in SUBJECTS:
                        yield Case(sk, sid, PRED, ok, oval, (), s1, s2, pd, cm)


IRI_CH = list("abz09#@_:/.%-~?=&+") + ["é", "中"]
LABEL_CH = list("abZ09_:") + ["é"]
COMMENT_CH = list("abc 09.#@_:<>\"^\\'\t") + ["^^", "é", " <x> ", '"^^<', "xsd:"]


def random_case(rnd):
    def iri():
        return "http://e/" + "".join(rnd.choice(IRI_CH) for _ in range(rnd.randint(0, 8)))

    def label():
        core_ = "".join(rnd.choice(LABEL_CH + [".", "-"]) for _ in range(rnd.randint(0, 5)))
        return rnd.choice(LABEL_CH) + core_ + (rnd.choice(LABEL_CH) if core_ else "")

    def ws(minlen):
        return "".join(rnd.choice(" \t") for _ in range(rnd.randint(minlen, 3)))
    sk = rnd.choice("IIB")
    sid = iri() if sk == "I" else label()
    r = rnd.random()
    items = ()
    if r < 0.1:
        ok, oval = "I", iri()
    elif r < 0.2:
        ok, oval = "B", label()
    else:
        pool = ALPHA + list(EXTRA_SYM) if rnd.random() < 0.5 else ["a", "7", "_", " ", "#", "<", ">", "é", '\\"', "\\\\",
                                                                   "\\u00e9", "@", ".", "'", "%"]
        items = items_of([rnd.choice(pool) for _ in range(rnd.randint(0, 12))])
        q = rnd.random()
        if q < 0.4:
            ok, oval = "P", ""
        elif q < 0.65:
            ok, oval = "L", rnd.choice(["en", "en-GB", "es-419", "x-a1-b2", "zh-Hant"])
        else:
            ok, oval = "T", rnd.choice([iri(), XSD + "integer", XSD + "date", "http://e/dt"])
    cm = None
    if rnd.random() < 0.5:
        if rnd.random() < 0.5:
            cm = (ws(0), "".join(rnd.choice("abc 09_-,;") for _ in range(rnd.randint(0, 8))))
        else:
            cm = (ws(0), "".join(rnd.choice(COMMENT_CH) for _ in range(rnd.randint(0, 8))))
    return Case(sk, sid, iri(), ok, oval, items, ws(1), ws(1), ws(0) if rnd.random() < 0.7 else "", cm)


# ---- evaluating a batch of cases: model (binary), implementation, oracle
class Batch(object):
    """aggregated result of a batch (picklable, small)"""

    def __init__(self):
        self.n = 0
        self.nontrivial = 0
        self.in_dom = 0
        self.valid = 0
        self.status = collections.Counter()
        self.spec_fail_in_dom = []          # (case tuple, line, impl obs, model obs, flags)
        self.spec_fail_no_rc = []
        self.rc_hits = collections.Counter()         # root cause -> cases flagged
        self.rc_fail = collections.Counter()         # root cause -> spec failures attributed
        self.rc_example = {}
        self.out_dom_right = 0
        self.corr_fail = []
        self.render_fail = []
        self.rdflib_checked = 0
        self.rdflib_fail = []
        self.samples = []
        self.impl_s = 0.0
        self.model_s = 0.0
        self.vm = []                        # a few (entry, in, out) triples for the vm_compute cross-check
        self.hashes = set()                 # hashes of the non-trivial lines of parts not distinct by construction
        self.hang_lines = []                # (line, model observation) of every real call that ran into the alarm
        self.n_hang = 0                     # real calls that ran into the alarm
        self.hang_viol = []                 # the same, when the reader is proved to terminate on every line (FLAGS["eol"])

    def merge(self, o):
        self.n += o.n
        self.n_hang += o.n_hang
        self.nontrivial += o.nontrivial
        self.in_dom += o.in_dom
        self.valid += o.valid
        self.status.update(o.status)
        for a in ("spec_fail_in_dom", "spec_fail_no_rc", "corr_fail", "render_fail", "rdflib_fail", "hang_lines",
                  "hang_viol"):
            getattr(self, a).extend(getattr(o, a)[:20])
        self.rc_hits.update(o.rc_hits)
        self.rc_fail.update(o.rc_fail)
        for k, v in o.rc_example.items():
            self.rc_example.setdefault(k, v)
        self.out_dom_right += o.out_dom_right
        self.rdflib_checked += o.rdflib_checked
        if len(self.samples) < 12:
            self.samples.extend(o.samples[:2])
        self.impl_s += o.impl_s
        self.model_s += o.model_s
        if len(self.vm) < 400:
            self.vm.extend(o.vm[:4])
        self.hashes |= o.hashes


RC_IDS_UNREPAIRED = ["C06-F1", "C06-F2", "C06-F3", "C06-F4", "C06-F5", "C06-F6", "C06-F7", "C06-F8"]
# after the tokeniser repairs (Gen.Consts.nt_fixed_tok) what is left of F7 has its own id
RC_IDS_REPAIRED = ["C06-F1", "C06-F2", "C06-F3", "C06-F4", "C06-F5", "C06-F6", "C06-F7r", "C06-F8"]
RC_IDS = list(RC_IDS_UNREPAIRED)
# the two switches of notes/proposed_fixes/C06-comment-glued-to-dot.diff, as Consts.v was generated:
# hash = a token also ends at '#' (nothing is left of C06-F7r: C06_dom_cur is everything, Props/C06.v: C06);
# eol  = a '<' without '>' reaches the end of the line (no text makes the reader hang: C06_terminates)
# skip = yield_triples skips blank lines and comment lines (notes/proposed_fixes/C06-comments-and-blank-lines.diff,
#        finding C06-F9; Props/C06.v: C06_document_lines)
FLAGS = {"hash": False, "eol": False, "skip": False}


def set_shape():
    """ask the model which text of the tokeniser Consts.v was generated from"""
    info = _mb().call("c06_info", [["x"]])[0]
    fixed = info[0] == "1"
    RC_IDS[:] = RC_IDS_REPAIRED if fixed else RC_IDS_UNREPAIRED
    FLAGS["hash"] = len(info) > 2 and info[2] == "1"
    FLAGS["eol"] = len(info) > 3 and info[3] == "1"
    FLAGS["skip"] = len(info) > 4 and info[4] == "1"
    parts = (["tokeniser"] if fixed else []) + (["typing"] if (fixed and len(info) > 1 and info[1] == "1") else []) + \
        (["token-ends-at-hash"] if FLAGS["hash"] else []) + (["unclosed-corner-to-eol"] if FLAGS["eol"] else []) + \
        (["skips-comment-and-blank-lines"] if FLAGS["skip"] else [])
    return "+".join(parts)


def load_corpus():
    """regression cases of repaired findings: {finding, line, expected_kinded}"""
    d = os.path.join(core.VERIF, "corpus", "C06")
    out = []
    if os.path.isdir(d):
        for fn in sorted(os.listdir(d)):
            if fn.endswith(".json"):
                with open(os.path.join(d, fn), encoding="utf-8") as f:
                    c = json.load(f)
                c["file"] = "corpus/C06/" + fn
                out.append(c)
    return out


def eval_cases(cases, rdflib_every=0, vm_every=0, known=None, by_hash=False):
    """model + implementation + oracle on a list of cases"""
    b = Batch()
    mb = _mb()
    set_shape()
    known = set(RC_IDS) if known is None else known
    t0 = time.time()
    lines = [render_line(c) for c in cases]
    srows = [spec_row(c) for c in cases]
    sout = mb.call("c06_spec", srows)
    drows = [["0", "raw", ln] for ln in lines]
    dout = mb.call("c06_doc", drows)
    b.model_s = time.time() - t0
    t0 = time.time()
    for i, c in enumerate(cases):
        if len(b.spec_fail_in_dom) >= 40:
            break       # the verdict is settled (failing inputs inside C06_dom): do not wait for more time-outs
        line = lines[i]
        so = sout[i]
        mobs = parse_doc_row(dout[i])
        iobs = impl_doc(line, timeout=0.1 if mobs[0] == "H" else (2.0 if _UNPREDICTED_HANGS[0] < 3 else 0.2))
        if iobs[0] == "H" and mobs[0] != "H":
            _UNPREDICTED_HANGS[0] += 1
        if iobs[0] == "H":
            b.hang_lines.append((line, list(mobs)))
            b.n_hang += 1
            if FLAGS["eol"]:
                b.hang_viol.append((c.tup(), line, list(iobs), list(mobs)))
        b.n += 1
        b.status[iobs[0]] += 1
        if len(so) < 4 or so[0] != line:
            b.render_fail.append((c.tup(), line, so[0] if so else None))
            continue
        valid, dom, flags = so[1] == "1", so[2] == "1", so[3]
        if so[4:] != expected(c):
            b.render_fail.append((c.tup(), line, so[4:]))
        if valid:
            b.valid += 1
        if dom:
            b.in_dom += 1
        if c.ok in ("P", "L", "T") and len(c.items) > 0:
            if by_hash:
                b.hashes.add(hash(line))
            else:
                b.nontrivial += 1
        if list(iobs) != list(mobs):
            b.corr_fail.append((c.tup(), line, iobs, mobs))
        ok = spec_ok(iobs, c)
        rcs = [RC_IDS[k] for k, f in enumerate(flags) if f == "1"]
        for r in rcs:
            b.rc_hits[r] += 1
        if valid and not ok:
            if dom:
                b.spec_fail_in_dom.append((c.tup(), line, iobs, mobs, flags))
            else:
                listed = [r for r in rcs if r in known]
                if not listed:
                    b.spec_fail_no_rc.append((c.tup(), line, iobs, mobs, flags))
                else:
                    for r in listed:
                        b.rc_fail[r] += 1
                        b.rc_example.setdefault(r, (line, iobs))
        elif valid and not dom:
            b.out_dom_right += 1
        if rdflib_every and i % rdflib_every == 0 and valid and _rdflib_can(c):
            b.rdflib_checked += 1
            try:
                rk = rdflib_kinded(line)
            except Exception as e:  # noqa
                rk = "rdflib: %s" % type(e).__name__
            ex = expected(c)
            ex2 = [x if not (j in (1, 4) and ex[j - 1] == "BNode") else None for j, x in enumerate(ex)]
            if rk != ex2:
                b.rdflib_fail.append((c.tup(), line, rk, ex2))
        if vm_every and i % vm_every == 0 and len(line) < 120:
            b.vm.append(("c06_doc", [drows[i]], [dout_raw(dout[i])]))
            b.vm.append(("c06_spec", [srows[i]], [dout_raw(so)]))
        if i % 4001 == 17 and len(b.samples) < 3:
            b.samples.append({"line": line, "impl": iobs, "model": mobs, "in_C06_dom": dom, "root_causes": rcs,
                              "oracle_ok": ok})
    b.impl_s = time.time() - t0
    return b


def dout_raw(row):
    return [f.encode("utf-8", "surrogateescape") if isinstance(f, str) else f for f in row]


def _work_forms(arg):
    """pool worker: (kind, list of symbol tuples, rdflib_every, vm_every, known ids)"""
    kind, forms, rdf, vm, known = arg
    warnings.filterwarnings("ignore")
    cases = []
    gen = cases_main if kind == "main" else cases_focus
    for syms in forms:
        cases.extend(gen(syms))
    out = Batch()
    for k in range(0, len(cases), 4000):
        out.merge(eval_cases(cases[k:k + 4000], rdf, vm, known, by_hash=(kind != "main")))
        if len(out.spec_fail_in_dom) >= 20:
            break
    return out


def _work_cases(arg):
    tups, rdf, vm, known = arg
    warnings.filterwarnings("ignore")
    return eval_cases([Case.of_tup(t) for t in tups], rdf, vm, known, by_hash=True)


def chunks(l, n):
    return [l[i:i + n] for i in range(0, len(l), n)]


def pool_run(fn, args):
    import multiprocessing as mp
    if len(args) <= 1:
        return [fn(a) for a in args]
    ctx = mp.get_context("fork")
    with ctx.Pool(core.NCPU) as pool:
        return pool.map(fn, args, chunksize=1)


# ---- documents (several statements, both line readers)
# comment lines (blanks before '#', text after it) and blank lines of the generated documents
COMMENT_LINES = [("", " just a comment"), ("", ""), ("  ", " after blanks"), ("\t", "x"),
                 ("", ' <http://e/b> <http://e/commented> "B" .'), ("", "<http://e/b> <http://e/c> <http://e/d> ."),
                 (" ", " _:a <http://e/p> _:b ."), ("", " <a> <b> <c>"), ("", ' "x" "y" "z"'), ("", " 1 2 3"),
                 ("", ' <http://e/s> <http://e/p> "v"@en . # twice'), ("", "é ## \\ @ ^^"), (" \t", "#")]
BLANK_LINES = ["", "", " ", "\t", "  \t "]
F9 = "C06-F9"


def random_document(rnd):
    """a list of lines: ("S", case) | ("C", blanks, text) | ("B", blanks); half of the documents hold statements only"""
    cs = [random_case(rnd) if rnd.random() < 0.5 else
          Case("I", "http://e/s%d" % j, PRED, *rnd.choice(SUFFIXES), items_of([rnd.choice(["a", "7", "_", "#"])
                                                                              for _ in range(rnd.randint(0, 4))]),
               " ", " ", rnd.choice(PREDOTS), rnd.choice(COMMENTS3[:2])) for j in range(rnd.randint(0, 6))]
    dl = [("S", c) for c in cs]
    if rnd.random() < 0.5:
        for _ in range(rnd.randint(1, 4)):
            pos = rnd.randint(0, len(dl))
            if rnd.random() < 0.65:
                w, txt = rnd.choice(COMMENT_LINES)
                if rnd.random() < 0.25 and cs:
                    txt = rnd.choice(["", " "]) + render_line(rnd.choice(cs))      # a commented-out statement
                dl.insert(pos, ("C", w, txt))
            else:
                dl.insert(pos, ("B", rnd.choice(BLANK_LINES)))
    if rnd.random() < 0.5:
        dl.append(("B", ""))            # the document ends with a line end
    return dl


def render_dline(x):
    return render_line(x[1]) if x[0] == "S" else (x[1] + "#" + x[2] if x[0] == "C" else x[1])


def doc_checks(rnd, n_docs, known):
    """random multi-line documents -- statements, comment lines, blank lines -- through raw_graph and source_file;
    model c06_doc vs implementation; oracle (the statements' triples in order, zero error lines) on the documents
    whose statement lines are all in C06_dom: inside the document domain (Spec.NtDomCur.dline_dom_cur /
    dline_dom_file_cur) the reader must be right; outside it the only root cause is C06-F9"""
    res = {"docs": 0, "corr_fail": [], "spec_fail": [], "all_in_dom_docs": 0, "hang": [], "with_comment_lines": 0,
           "with_blank_lines": 0, "outside_dom": 0, "outside_dom_but_right": 0, "f9_hits": 0, "f9_example": None,
           "no_rc": [], "render_fail": []}
    mb = _mb()
    d = os.path.join(core.WORK, "c06")
    os.makedirs(d, exist_ok=True)
    for k in range(n_docs):
        dl = random_document(rnd)
        cs = [x[1] for x in dl if x[0] == "S"]
        others = [x for x in dl if x[0] != "S"]
        so = mb.call("c06_spec", [spec_row(c) for c in cs]) if cs else []
        if others:
            do = mb.call("c06_dline", [[x[0], x[1], x[2] if x[0] == "C" else ""] for x in others])
            for x, r in zip(others, do):
                want = [render_dline(x), "1", "1" if (FLAGS["skip"] or x[0] == "B") else "0", "1" if FLAGS["skip"] else "0"]
                if list(r) != want:
                    res["render_fail"].append((list(x), list(r), want))
        has_c = any(x[0] == "C" for x in dl)
        has_b = any(x[0] == "B" for x in dl)
        res["with_comment_lines"] += has_c
        res["with_blank_lines"] += has_b
        doc = "\n".join(render_dline(x) for x in dl)
        stmts_ok = all(r[1] == "1" and r[2] == "1" for r in so)
        for reader in ("raw", "file"):
            if reader == "file":
                path = os.path.join(d, "doc_%d_%d.nt" % (os.getpid(), k))
                with open(path, "w", encoding="utf-8", newline="") as f:
                    f.write(doc)
                iobs = impl_file(path)
                os.unlink(path)
            else:
                iobs = impl_doc(doc)
            mobs = parse_doc_row(mb.call("c06_doc", [["0", reader, doc]])[0])
            res["docs"] += 1
            if iobs[0] == "H" and FLAGS["eol"]:
                res["hang"].append((reader, doc, iobs, mobs))
            if list(iobs) != list(mobs):
                res["corr_fail"].append((reader, doc, iobs, mobs))
            if not stmts_ok:
                continue
            in_dom = FLAGS["skip"] or not (has_c or (reader == "file" and has_b))
            want = [expected(c) for c in cs]
            got = [kinded_of_obs(t) for t in iobs[2]]
            right = iobs[0] == "D" and iobs[1] == 0 and got == want
            if in_dom:
                res["all_in_dom_docs"] += 1
                if not right:
                    res["spec_fail"].append((reader, doc, iobs, want))
            else:
                res["outside_dom"] += 1
                if right:
                    res["outside_dom_but_right"] += 1
                elif F9 in known:
                    res["f9_hits"] += 1
                    if res["f9_example"] is None:
                        res["f9_example"] = (reader, doc, iobs, want)
                else:
                    res["no_rc"].append((reader, doc, iobs, want))
    return res


# ---- arbitrary text: lines that are NOT N-Triples (C06_terminates speaks of every line; the correspondence too)
GARBAGE_TOK = ["<", ">", '"', "_", "_:", ".", "#", "1", "23", "@", "^^", "\\", " ", " ", "\t", "é", "a", "b", ":", "-", "^^<",
               '"@en', "<http://e/x>", "_:b", '"a"', '\\"', "\\\\", "xsd:", "[]", "'", "^"]


def garbage_lines(rnd, n):
    out = []
    for _ in range(n):
        ln = "".join(rnd.choice(GARBAGE_TOK) for _ in range(rnd.randint(1, 10)))
        if ln.strip() != "":
            out.append(ln)
    return out


def _work_garbage(lines):
    """model vs implementation on arbitrary lines.  Where the model predicts a hang (only without
    nt_uri_unclosed_to_eol) the real reader is called on the first 40 such lines of the batch only (0.1 s each)."""
    warnings.filterwarnings("ignore")
    mb = _mb()
    set_shape()
    out = mb.call("c06_doc", [["0", "raw", ln] for ln in lines])
    res = {"n": 0, "status": collections.Counter(), "corr_fail": [], "hang": [], "predicted_hangs": 0, "not_run": 0}
    for ln, r in zip(lines, out):
        mobs = parse_doc_row(r)
        if mobs[0] == "H":
            res["predicted_hangs"] += 1
            if res["predicted_hangs"] > 40:
                res["not_run"] += 1
                continue
        iobs = impl_doc(ln, timeout=0.1 if mobs[0] == "H" else (2.0 if _UNPREDICTED_HANGS[0] < 3 else 0.2))
        if iobs[0] == "H" and mobs[0] != "H":
            _UNPREDICTED_HANGS[0] += 1
        res["n"] += 1
        res["status"][iobs[0]] += 1
        if iobs[0] == "H" and FLAGS["eol"] and len(res["hang"]) < 5:
            res["hang"].append((ln, list(iobs), list(mobs)))
        if list(iobs) != list(mobs) and len(res["corr_fail"]) < 5:
            res["corr_fail"].append((None, ln, iobs, mobs))
    return res


# ---- the check
def run(tier, seed, replay=None):
    run = core.Run("C06", tier, seed)
    bs = core.build("C06")
    proofs_ok = core.proof_gate(run, bs)
    rnd = random.Random(seed)
    warnings.filterwarnings("ignore")
    findings = {f["id"]: f for f in core.load_findings("C06")}
    known = set(fid for fid, f in findings.items() if f.get("status") == "known")

    def read_right(line, want):
        got = impl_doc(line)
        return got, (got[0] == "D" and got[1] == 0 and [kinded_of_obs(t) for t in got[2]] == [want])

    def document_read_right(rp):
        """a pinned DOCUMENT: {"document", "expected_kinded_list", "reader": raw|file}"""
        if rp.get("reader") == "file":
            dd = os.path.join(core.WORK, "c06")
            os.makedirs(dd, exist_ok=True)
            path = os.path.join(dd, "pinned_%d.nt" % os.getpid())
            with open(path, "w", encoding="utf-8", newline="") as f:
                f.write(rp["document"])
            got = impl_file(path)
            os.unlink(path)
        else:
            got = impl_doc(rp["document"])
        return got, (got[0] == "D" and got[1] == 0 and [kinded_of_obs(t) for t in got[2]] == rp["expected_kinded_list"])

    # known findings: replay the pinned reproducers against the real code
    kf_parts = {}
    for fid in sorted(known):
        f = findings[fid]
        rp = f["reproducer"]
        got, ok = document_read_right(rp) if "document" in rp else read_right(rp["line"], rp["expected_kinded"])
        if not ok and "document" in rp and f.get("reproducer_file"):
            got2, ok2 = document_read_right(f["reproducer_file"])
            kf_parts[fid] = ["%s -> raw string: %s; file: %s" % (f["what"][:200], json.dumps(got)[:220], json.dumps(got2)[:90])]
        elif not ok:
            kf_parts[fid] = ["%s -> reader answers %s" % (f["what"][:160], json.dumps(got)[:160])]
        else:
            run.notes.append("finding %s no longer reproduces on its pinned line" % fid)
        rh = f.get("reproducer_hang")
        if rh:
            got, ok = read_right(rh["line"], rh["expected_kinded"])
            if got[0] == "H":
                kf_parts.setdefault(fid, []).append("same root cause as a HANG: yield_triples never returns on the pinned "
                                                    "valid line %s (alarm after 2 s)"
                                                    % json.dumps(rh["line"], ensure_ascii=False))
            elif not ok:
                kf_parts.setdefault(fid, []).append("the pinned hang line now answers %s" % json.dumps(got)[:160])
            else:
                run.notes.append("finding %s no longer reproduces on its pinned hang line" % fid)

    # regression corpus: pinned lines of repaired findings must be read right (cases marked replay_first come
    # first: the hang line of C06-F7r stops a relapse before the enumeration meets it thousands of times).
    # A case whose finding is still listed as known belongs to that finding until the repair is in VERIF_REPO.
    corpus = sorted(load_corpus(), key=lambda c: (not c.get("replay_first"), c["file"]))
    corpus_fail = []
    waiting = {}
    for c in corpus:
        got, ok = document_read_right(c) if "document" in c else read_right(c["line"], c["expected_kinded"])
        if ok:
            continue
        if c.get("finding") in known:
            waiting.setdefault(c["finding"], []).append(c["file"])
            continue
        corpus_fail.append(c)
        run.violation("regression case of repaired finding %s is not read right%s"
                      % (c.get("finding"), " (the reader never returns)" if got[0] == "H" else ""),
                      {"line": c.get("line", c.get("document")), "impl": got,
                       "expected_kinded": c.get("expected_kinded", c.get("expected_kinded_list")), "corpus": c["file"]})
    for fid, files in waiting.items():
        kf_parts.setdefault(fid, []).append("regression case(s) %s wait for the repair" % ", ".join(files))
    for fid in sorted(kf_parts):
        run.known_finding(fid, "; ".join(kf_parts[fid]))

    if not bs.model_ok:
        run.notes.append("model binary unavailable: " + bs.model_log[-800:])
        run.violation("model no longer builds", {"broken": "Model/Entry extraction", "log": bs.model_log[-1500:]},
                      failing_input=False)
        return run.finish(bs)

    total = Batch()
    repaired = set_shape()
    run.notes.append("repairs present in VERIF_REPO: %s (Gen.Consts.nt_fixed_tok / nt_fixed_dlt / nt_tok_end_at_hash / "
                     "nt_uri_unclosed_to_eol)" % (repaired or "none"))
    if FLAGS["hash"]:
        run.notes.append("nt_tok_end_at_hash: C06_dom_cur is everything, no root cause is excused (Props/C06.v: C06)")
    if FLAGS["eol"]:
        run.notes.append("nt_uri_unclosed_to_eol: no real call may run into the alarm (Props/C06.v: C06_terminates)")
    if FLAGS["skip"]:
        run.notes.append("nt_skips_comment_lines: every valid document, comment lines and blank lines included, raw "
                         "string or file, must be read right (Props/C06.v: C06_document_lines)")
    t_start = time.time()
    docs = None
    garbage = None
    if replay:
        with open(replay) as f:
            rp = json.load(f)
        if "case" in rp:
            total.merge(eval_cases([Case.of_tup(rp["case"])], 1, 0, known))
        elif "line" in rp:
            # a bare line: correspondence only
            mobs = parse_doc_row(_mb().call("c06_doc", [["0", "raw", rp["line"]]])[0])
            iobs = impl_doc(rp["line"])
            total.n = 1
            if iobs[0] == "H" and FLAGS["eol"]:
                total.hang_viol.append((None, rp["line"], list(iobs), list(mobs)))
            if list(iobs) != list(mobs):
                total.corr_fail.append((None, rp["line"], iobs, mobs))
        exhaustive = False
        maxitems = 0
    else:
        maxitems = 4 if tier == "thorough" else 3
        forms = list(lex_forms(maxitems))
        rnd.shuffle(forms)
        per = max(1, min(40, len(forms) // (core.NCPU * 8)))
        rdf_every = 7
        args = [("main", ch, rdf_every, 997, known) for ch in chunks(forms, per)]
        focus_forms = list(lex_forms(2, FOCUS_ALPHA))
        args += [("focus", ch, 5, 499, known) for ch in chunks(focus_forms, 6)]
        for r in pool_run(_work_forms, args):
            total.merge(r)
        node_cases = [c.tup() for c in cases_nodes()]
        n_rand = 100000 if tier == "thorough" else 6000
        rcases = [random_case(rnd).tup() for _ in range(n_rand)]
        for r in pool_run(_work_cases, [(ch, 3, 211, known) for ch in chunks(node_cases + rcases, 1500)]):
            total.merge(r)
        docs = doc_checks(rnd, 1500 if tier == "thorough" else 300, known)
        glines = garbage_lines(rnd, 200000 if tier == "thorough" else 20000)
        garbage = {"n": 0, "status": collections.Counter(), "corr_fail": [], "hang": [], "predicted_hangs": 0, "not_run": 0}
        for r in pool_run(_work_garbage, chunks(glines, 2000)):
            for k in ("n", "predicted_hangs", "not_run"):
                garbage[k] += r[k]
            garbage["status"].update(r["status"])
            garbage["corr_fail"].extend(r["corr_fail"])
            garbage["hang"].extend(r["hang"])
        total.corr_fail.extend(garbage["corr_fail"])
        total.hang_viol.extend((None, ln, i, m) for (ln, i, m) in garbage["hang"])
        exhaustive = True
    wall_enum = time.time() - t_start

    # vm_compute cross-check of a sample of what the binary answered
    vm_n = 0
    if total.vm and not replay:
        sample = total.vm[:240 if tier == "thorough" else 120]
        vm_n, mism, log = core.vm_crosscheck(sample, "c06", per_file=12)
        if mism:
            run.internal_errors.append("extracted binary and vm_compute disagree (C06): %s %s" % (mism[:5], log[-300:]))
    if total.render_fail:
        run.internal_errors.append("harness rendering / expectation differs from Spec.NtSyntax (nt_line / kinded): %r"
                                   % (total.render_fail[0],))
    if total.rdflib_fail:
        run.internal_errors.append("generator assumption: rdflib's N-Triples parser reads a generated line differently: %r"
                                   % (total.rdflib_fail[0],))

    # verdicts
    spec_fail = total.spec_fail_in_dom + total.spec_fail_no_rc
    for (ct, line, iobs, mobs, flags) in spec_fail[:5]:
        run.violation("the reader does not yield the statement's triple (valid line, %s)" %
                      ("inside C06_dom" if (ct, line, iobs, mobs, flags) in total.spec_fail_in_dom
                       else "outside C06_dom with no listed root cause"),
                      {"case": ct, "line": line, "impl": iobs, "model": mobs, "expected_kinded": expected(Case.of_tup(ct)),
                       "root_cause_flags": flags})
    if docs:
        for (reader, doc, iobs, want) in docs["spec_fail"][:3]:
            run.violation("document of in-domain statements not read exactly", {"reader": reader, "document": doc,
                                                                                  "line": doc, "impl": iobs,
                                                                                  "expected_kinded": want})
        for (reader, doc, iobs, want) in docs["no_rc"][:3]:
            run.violation("valid document with comment lines / blank lines not read exactly (outside the document "
                          "domain, no listed root cause)", {"reader": reader, "document": doc, "line": doc, "impl": iobs,
                                                            "expected_kinded": want})
        if docs["render_fail"]:
            run.internal_errors.append("harness rendering of a comment / blank line differs from Spec.NtSyntax.r_dline "
                                       "or its domain from Spec.NtDomCur: %r" % (docs["render_fail"][0],))
        if docs["f9_hits"]:
            total.rc_fail[F9] += docs["f9_hits"]
            total.rc_example.setdefault(F9, docs["f9_example"])
    # hangs: with nt_uri_unclosed_to_eol the reader terminates on every text (C06_terminates), valid or not
    hangs = [(ct, line, iobs, mobs) for (ct, line, iobs, mobs) in total.hang_viol]
    for (ct, line, iobs, mobs) in hangs[:3]:
        payload = {"line": line, "impl": iobs, "model": mobs}
        if ct is not None:
            payload["case"] = ct
        run.violation("the reader never returns on this line (alarm); C06_terminates says no text makes it hang", payload)
    if docs:
        for (reader, doc, iobs, mobs) in docs["hang"][:2]:
            run.violation("the reader never returns on this document (alarm)", {"reader": reader, "document": doc,
                                                                                "line": doc, "impl": iobs, "model": mobs})
    n_corr = len(total.corr_fail) + (len(docs["corr_fail"]) if docs else 0)
    if not spec_fail and not (docs and (docs["spec_fail"] or docs["no_rc"])) and not hangs and not (docs and docs["hang"]):
        if n_corr:
            first = total.corr_fail[0] if total.corr_fail else docs["corr_fail"][0]
            run.violation("correspondence Model.NtReader vs shexer NtTriplesYielder no longer checks",
                          {"broken": "correspondence c06_doc (read_raw_string / read_file)", "first_case": first,
                           "line": first[1], "n_disagreements": n_corr}, failing_input=False)
        elif not proofs_ok:
            run.violation("proof obligations of C06 no longer check",
                          {"broken": "theorems of Props/C06.v", "log": run.notes[-1] if run.notes else ""},
                          failing_input=False)

    run.coverage.update({
        "evaluations": total.n + (docs["docs"] if docs else 0) + len(corpus) + (garbage["n"] if garbage else 0),
        "arbitrary_lines": ({"lines": garbage["n"], "impl_status_distribution": dict(garbage["status"]),
                             "model_predicted_hangs": garbage["predicted_hangs"],
                             "predicted_hangs_not_run_against_the_real_reader": garbage["not_run"],
                             "alphabet": GARBAGE_TOK,
                             "rule": "random concatenations of 1..10 fragments; not N-Triples in general: model vs "
                                     "implementation only (status, error count, triples), and no hang at all once "
                                     "nt_uri_unclosed_to_eol holds"} if garbage else {}),
        "regression_corpus": {"cases": len(corpus), "failing": [c["file"] for c in corpus_fail]},
        "repairs_present": repaired or "none",
        "distinct_nontrivial": total.nontrivial + len(total.hashes),
        "rule": "non-trivial = literal object with a non-empty lexical form.  Main product: distinct by construction "
                "(no symbol of the alphabet is a concatenation of others, every other factor changes the line), "
                "counted; focused product, node objects and random statements: distinct lines counted through a set "
                "of line hashes (their subject IRI differs from the main product's)",
        "exhaustive": exhaustive,
        "exhaustive_space": "all lexical forms of <= %d symbols over the %d-symbol alphabet %r x %d suffix forms x %d "
                            "separator layouts x %d blank/no-blank before the dot x %d comment variants x %d subjects; "
                            "plus all forms of <= 2 symbols over %d symbols x %d suffixes x 3 pre-dot x %d comments; "
                            "plus node objects; plus random statements and random documents (both line readers)"
                            % (maxitems, len(ALPHA), ALPHA, len(SUFFIXES), len(SEPS), len(PREDOTS), len(COMMENTS3),
                               len(SUBJECTS), len(FOCUS_ALPHA), len(SUFFIXES) + len(SUFFIXES_FOCUS),
                               len(COMMENTS_FOCUS) + 1),
        "valid_lines": total.valid,
        "in_C06_dom": total.in_dom,
        "outside_dom_but_right": total.out_dom_right,
        "impl_status_distribution": dict(total.status),
        "lines_on_which_the_real_reader_ran_into_the_alarm": total.hang_lines[:20],
        "real_calls_that_ran_into_the_alarm": total.n_hang,
        "flags": dict(FLAGS),
        "root_cause_flagged": dict(total.rc_hits),
        "known_finding_hits": dict(total.rc_fail),
        "known_finding_examples": {k: v for k, v in total.rc_example.items()},
        "disagreements_model_vs_impl": n_corr,
        "documents": {k: (v if isinstance(v, int) else (len(v) if isinstance(v, list) else (1 if v else 0)))
                      for k, v in (docs or {}).items()},
        "document_lines": {"comment_lines": COMMENT_LINES, "blank_lines": BLANK_LINES,
                           "rule": "half of the documents hold 1..4 extra lines: comment lines (the list, or a "
                                   "commented-out statement of the document) and blank lines; half end with a line end; "
                                   "each document is read from a raw string and from a file"},
        "rdflib_crosschecked": total.rdflib_checked,
        "vm_compute_crosschecked": vm_n,
        "seconds": {"enumeration_wall": round(wall_enum, 1), "impl_cpu": round(total.impl_s, 1),
                    "model_cpu": round(total.model_s, 1)},
        "samples": total.samples[:8],
    })
    run.assumptions = [
        "str.isnumeric()/str.strip() on non-ASCII digits / white space are modelled for ASCII only (the theorem shows "
        "isnumeric is only consulted on blanks for lines in C06_dom)",
        "a Python str is modelled as its UTF-8 byte list; generated lines are valid UTF-8",
        "rdflib's N-Triples parser is used only to monitor the generator (every generated valid line must mean the "
        "expected triple), not as an oracle for sheXer",
    ]
    return run.finish(bs)
