"""C02 -- a shape holds exactly the features at or above the acceptance threshold.

Oracle: the key set of every shape recomputed from the abstract triples with
exact rational arithmetic (pipespec.check_keys)."""
from vp import pipeprops, pipespec, pipe, pipemap

pipemap.install()      # shape-map runs (cfg["smap"]) go through Model.RunMap / Shaper(shape_map_raw=...)


class Spec(pipeprops.PropSpec):
    pid = "C02"
    theorems = "see Props/C02.v (names are read from the file at run time)"
    uses_bin64 = True
    projection = staticmethod(pipeprops.proj_keys)
    projection_name = "per shape: label, instance count, list of (direction, predicate, value class) keys"
    rule = ("graphs as C01 x thresholds on every k/n boundary of the class sizes present plus 0, 1, 0.5, 0.51, 1/3, 2/3 "
            "and a random percentage x all 2^6 switch assignments x target modes; non-trivial = some class with >= 2 "
            "instances and some non-typing triple")

    def gen_cases(self, tier, rnd):
        return pipeprops.gen_basic(tier, rnd, 2500, 40000) + pipemap.stream(tier, rnd, 1000, 10000, only_iri=True)

    def oracle(self, case, impl):
        ts, cfg = case["runs"][0]
        if impl[0][0] != "ok":
            return [], 0
        doc = pipe.canon(impl[0][1])
        if pipemap.is_map(cfg):
            return pipemap.check_keys_map(ts, cfg, doc)
        return pipespec.check_keys(ts, cfg, doc)

    def domain_note(self):
        return "keys of value class 'nonliteral' are exempt when the instances having an IRI value and those having " \
               "a BNode value are not nested (finding C02-F1); colliding shape labels exempt (C01-F2 root cause)"


def run(tier, seed, replay=None):
    return pipeprops.run_property(Spec(), tier, seed, replay)
