"""C11 -- ShExC and SHACL outputs state the same constraints.

Theorems: Props/C11.v (C11_views_agree / C11_read_back / C11_shape(s)_agree on C11_dom =
the whole well-formed domain, the cardinality table for all k).  The four defects found
by this check (C11-F1..F4) are fixed in /repo (3370abe, 48b7fcb); their reproducers are
regression cases under corpus/C11/, replayed first on every run, and must pass.

Per case: ONE real Shaper, shex_graph(SHEXC) then shex_graph(SHACL_TURTLE) with the
same threshold.  (The second call re-uses the memoised shapes and the SHACL serialiser
adds the sh prefix to the Shaper's namespaces dict -- both known C18 defects; neither
touches the ShExC text produced before, so one Shaper is used as the property asks.)

(i)  oracle, from the property text only: the SHACL document parsed by rdflib into
     (shape, direction, predicate, restriction, min, max) tuples must equal the tuples
     read from the ShExC text, shape by shape; shape IRIs equal; sh:targetClass = class.
(ii) correspondence: every ShExC constraint line, turned into a statement row, goes
     through the model binary: shexc_tokens must be the tokens of the real line,
     shex_view must be what the canonicaliser read, shacl_arcs must be the arcs of a
     property shape of the real SHACL document (multiset per shape); a ValueError of
     the real SHACL serialiser must be predicted by the model and vice versa.
(iii) grid: synthetic Statement objects (all kinds x cardinalities x direction x
     instantiation/regular) through the real serialiser classes against the model.

Streams: random graphs (gen_graphs); tiny graphs per value kind x cardinality form x direction;
graphs built so that a shape holds TWO OR MORE constraints on one predicate in one direction
(values of two or three datatypes -- xsd:string + xsd:integer, xsd:string + rdf:langString, ... --
literal + IRI mixes, IRI + blank-node values, nodes with several rdf:type values: same_predicate_cases);
documents whose ShExC text is longer than the serialiser's 5000-line buffer, returned as a string
(big_cases: quick one, thorough two -- one of them crosses the buffer twice).
"""
import collections
import itertools
import json
import os
import random
import signal
import warnings

from vp import core, canon, gen_graphs, pipe, shacldoc

RDF_TYPE = gen_graphs.RDF_TYPE
XSD = gen_graphs.XSD
SHAPES_NS = "http://weso.es/shapes/"

NS_VARIANTS = [None,
               {"http://example.org/": "ex", XSD: "xsd", gen_graphs.FOAF: "foaf"},
               {"http://example.org/": "ex", "http://www.w3.org/1999/02/22-rdf-syntax-ns#": "rdf",
                "http://example.org/dt/": "dt"}]

FINDING_OF = {}   # root cause name -> id of a `known` finding (none at present)


class _Timeout(Exception):
    pass


def _alarm(signum, frame):
    raise _Timeout()


# --------------------------------------------------------------------------
# implementation side
# --------------------------------------------------------------------------

def impl_case(case):
    """run the real code on one case; everything returned is plain data"""
    from shexer.shaper import Shaper
    from shexer.consts import SHEXC, SHACL_TURTLE, NT
    warnings.filterwarnings("ignore")
    res = {"status": "ok", "shexc": None, "shacl": None, "shacl_error": None, "stmts": None}
    ns = case.get("ns")
    kw = dict(raw_graph=case["nt"], input_format=NT, all_classes_mode=True,
              namespaces_dict=dict(ns) if ns is not None else None)
    kw.update(case["switches"])
    thr = case["thr"][0] / float(case["thr"][1])
    old = signal.signal(signal.SIGALRM, _alarm)
    signal.setitimer(signal.ITIMER_REAL, 10.0)
    try:
        try:
            sh = Shaper(**kw)
            res["shexc"] = sh.shex_graph(string_output=True, output_format=SHEXC, acceptance_threshold=thr)
        except _Timeout:
            res["status"] = "hang"
            return res
        except BaseException as e:  # noqa -- extraction crash: C04's business, recorded
            res["status"] = "extraction-crash"
            res["error"] = "%s: %s" % (type(e).__name__, str(e)[:200])
            return res
        try:
            res["shacl"] = sh.shex_graph(string_output=True, output_format=SHACL_TURTLE, acceptance_threshold=thr)
        except _Timeout:
            res["status"] = "hang"
            return res
        except ValueError as e:
            res["shacl_error"] = "ValueError: %s" % str(e)[:200]
        except BaseException as e:  # noqa
            res["shacl_error"] = "%s: %s" % (type(e).__name__, str(e)[:200])
        try:  # the statements both serialisers were given (internal; only used to confirm the rows)
            res["stmts"] = [[s.name, s.class_uri, [[st.st_property, st.st_type, st.cardinality, bool(st.is_inverse)]
                                                   for st in s.yield_statements()]] for s in sh._shape_list]
        except BaseException:  # noqa
            res["stmts"] = None
    finally:
        signal.setitimer(signal.ITIMER_REAL, 0)
        signal.signal(signal.SIGALRM, old)
    return res


def analyse_case(case):
    try:
        return _analyse_case(case)
    except BaseException as e:  # noqa -- a bug of the harness itself: reported as internal error
        import traceback
        return {"status": "harness-error", "error": traceback.format_exc()[-600:], "shacl_error": None, "oracle": [],
                "rows": [], "label_rows": [], "lines": [], "shacl_shapes": None, "rows_confirmed": None,
                "shexc": None, "shacl": None, "canon_error": None, "ood_reason": None, "unreadable": False}


def _analyse_case(case):
    """impl + parsing + oracle + model rows (runs in a worker)"""
    r = impl_case(case)
    out = {"status": r["status"], "error": r.get("error"), "shacl_error": r["shacl_error"], "oracle": [],
           "rows": [], "label_rows": [], "lines": [], "shacl_shapes": None, "rows_confirmed": None,
           "shexc": r["shexc"], "shacl": r["shacl"], "canon_error": None, "ood_reason": None,
           "unreadable": False}
    if r["status"] != "ok":
        return out
    # the whole SHACL document against Model.ShaclDoc.shacl_graph (rdflib graph isomorphism)
    out["shacldoc"] = shacldoc.compare_c11(case, r)
    try:
        doc = canon.parse_shexc(r["shexc"])
        sdoc = canon.parse_shacl(r["shacl"]) if r["shacl"] is not None else None
    except canon.CanonError as e:
        # text outside the ShExC subset / not a SHACL document the property can be read from
        detail = [str(e)[:300]]
        try:        # what the two documents hold, as far as they can be read (for the report of the failure)
            first = next((l for l in (r["shexc"] or "").split("\n") if l.strip()), "")
            detail.append("ShExC text: %d lines, %d lines open a shape body, first line %r" % (
                r["shexc"].count("\n"), sum(1 for l in r["shexc"].split("\n") if l.strip() == "{"), first[:80]))
            if r["shacl"] is not None:
                detail.append("SHACL document: %d node shapes" % len(canon.parse_shacl(r["shacl"])))
        except BaseException:  # noqa
            pass
        out["oracle"] = [{"kind": "unreadable-output", "shape": None, "tuple": detail, "rc": None}]
        out["unreadable"] = True
        return out
    except BaseException as e:  # noqa
        out["canon_error"] = "%s: %s" % (type(e).__name__, str(e)[:300])
        return out
    out["shacl_shapes"] = None if sdoc is None else {k: [p["arcs"] for p in v["props"]] for k, v in sdoc.items()}
    ns_fields = []
    for (p, n) in doc["prefixes"]:
        ns_fields += [n, p]
    for si, sh in enumerate(doc["shapes"]):
        out["label_rows"].append(["%<" + sh["label"] + ">", ""] + ns_fields)
        for c in sh["constraints"]:
            out["rows"].append(row_of_constraint(c) + [RDF_TYPE] + ns_fields)
            out["lines"].append({"shape": sh["label"], "label_tok": sh["label_tok"], "sense": c["sense"],
                                 "ptok": c["ptok"], "vtok": c["vtok"], "ctok": c["ctok"],
                                 "tuple": canon.constraint_tuple(c), "raw": c["raw"]})
    if r["stmts"] is not None:
        real = []
        for (name, cls, sts) in r["stmts"]:
            for (p, t, card, inv) in sts:
                real.append(["1" if inv else "0", p, t, str(card)])
        out["rows_confirmed"] = (real == [x[:4] for x in out["rows"]])
    if sdoc is not None:
        out["oracle"] = oracle(doc, sdoc, case.get("classes"))
    else:
        # no SHACL document at all: acceptable only for what SHACL serialisation documents as
        # unsupported (predicates / class values that are not http(s) IRIs, e.g. blank-node classes)
        out["ood_reason"] = out_of_domain_reason(doc)
        if out["ood_reason"] is None:
            out["oracle"] = [{"kind": "no-shacl-document", "shape": None, "tuple": [r["shacl_error"]], "rc": None}]
    return out


def _http(u):
    return u.startswith("http://") or u.startswith("https://")


def out_of_domain_reason(doc):
    for s in doc["shapes"]:
        for c in s["constraints"]:
            if not _http(c["pred"]):
                return "predicate %s" % c["pred"]
            if c["restr"][0] == "value" and not _http(c["restr"][1]):
                return "class value %s" % c["restr"][1]
    return None


def row_of_constraint(c):
    """the statement (is_inverse, st_property, st_type, cardinality) a ShExC line stands for"""
    kind = c["restr"][0]
    if kind == "ref":
        ty = "%<" + c["restr"][1] + ">"
    elif kind in ("datatype", "value", "kind"):
        ty = c["restr"][1]
    else:
        ty = "?unsupported"
    ctok = c["ctok"]
    card = "1" if ctok == "" else (ctok[1:-1] if ctok.startswith("{") else ctok)
    return ["1" if c["inv"] else "0", c["pred"], ty, card]


# --------------------------------------------------------------------------
# oracle (property text only)
# --------------------------------------------------------------------------

def root_cause(t):
    """known-finding root cause of a ShExC constraint tuple (none at present: every mismatch is a failure)"""
    return None


def oracle(doc, sdoc, classes=None):
    """list of failures: dict(kind, shape, tuple, rc).  rc = root cause name or None."""
    fails = []
    labels = [s["label"] for s in doc["shapes"]]
    if sorted(labels) != sorted(sdoc.keys()):
        fails.append({"kind": "shape-set", "shape": None, "tuple": [sorted(labels), sorted(sdoc.keys())], "rc": None})
    expected_class = {}
    if classes:
        for c in classes:
            expected_class[SHAPES_NS + gen_graphs.local_name(c)] = c
    for s in doc["shapes"]:
        sd = sdoc.get(s["label"])
        if sd is None:
            continue
        if s["label"] in expected_class and sd["targets"] != [expected_class[s["label"]]]:
            fails.append({"kind": "targetClass", "shape": s["label"],
                          "tuple": [sd["targets"], expected_class[s["label"]]], "rc": None})
        elif len(sd["targets"]) != 1:
            fails.append({"kind": "targetClass", "shape": s["label"], "tuple": [sd["targets"]], "rc": None})
        if sd["other"] or sd["patterns"]:
            fails.append({"kind": "extra-arcs", "shape": s["label"], "tuple": [sd["other"], sd["patterns"]], "rc": None})
        have = collections.Counter(p["tuple"] for p in sd["props"])
        excused = 0
        for c in s["constraints"]:
            t = canon.constraint_tuple(c)
            if have[t] > 0:
                have[t] -= 1
                continue
            rc = root_cause(t)
            fails.append({"kind": "constraint", "shape": s["label"], "tuple": t, "rc": rc})
            if rc is not None:
                excused += 1
        left = sum(have.values())
        if left != excused:
            fails.append({"kind": "property-shape-count", "shape": s["label"],
                          "tuple": [[list(map(str, k)) for k, v in have.items() if v > 0], excused], "rc": None})
    return fails


# --------------------------------------------------------------------------
# cases
# --------------------------------------------------------------------------

def make_case(g, switches, thr, ns, tag):
    return {"nt": g["nt"] if isinstance(g, dict) else g, "switches": switches, "thr": list(thr), "ns": ns,
            "classes": [c[1] for c in g["classes"] if c[0] == "iri"] if isinstance(g, dict) else None, "tag": tag,
            "ood": g.get("out_of_domain") if isinstance(g, dict) else None}


def load_corpus():
    """pinned regression cases (reproducers of fixed findings, past disagreements): replayed first"""
    d = os.path.join(core.VERIF, "corpus", "C11")
    out = []
    if os.path.isdir(d):
        for fn in sorted(os.listdir(d)):
            if fn.endswith(".json"):
                with open(os.path.join(d, fn)) as f:
                    out.append(json.load(f)["case"])
    return out


def random_cases(n, rnd):
    cases = []
    for i in range(n):
        g = gen_graphs.gen_graph(rnd, out_of_domain_rate=0.06)
        sw, thr = gen_graphs.gen_config(rnd, index=i)
        cases.append(make_case(g, sw, thr, NS_VARIANTS[i % len(NS_VARIANTS)], "random-%d" % i))
    return cases


# value kinds drawn together for ONE predicate of one class: every kind gives its own constraint (literals: one per
# datatype; IRI and BNode values: one each, or a NONLITERAL merge; a typed IRI: a shape reference)
SAME_PREDICATE_KINDS = [("string", "integer"), ("string", "langString"), ("integer", "custom"), ("langString", "custom"),
                        ("string", "integer", "langString"), ("string", "iri_untyped"), ("integer", "iri_typed"),
                        ("iri_untyped", "bnode_untyped"), ("string", "bnode_untyped"), ("langString", "iri_typed")]


def same_predicate_graph(rnd):
    """1-3 classes, 2-5 nodes (some blank) with 1-3 rdf:type values each (at least one node has two when there are
    two classes), 1-3 properties each carrying values of two or three kinds (both kinds present among the instances
    of every class that has the property: the first two values alternate)"""
    g = gen_graphs
    b = g._Builder(rnd)
    classes = [g.iri(g.NS + "C%d" % i) for i in range(rnd.randint(1, 3))]
    nodes = [(g.bnode("s%d" % k) if rnd.random() < 0.15 else g.iri(g.NS + "s%d" % k)) for k in range(rnd.randint(2, 5))]
    instances = {c: [] for c in classes}
    for k, n in enumerate(nodes):
        m = rnd.randint(1, len(classes))
        if k == 0 and len(classes) > 1:
            m = max(m, 2)
        for c in rnd.sample(classes, m):
            b.add(n, g.iri(RDF_TYPE), c)
            instances[c].append(n)
    typed_iris = [n for n in nodes if n[0] == "iri"]
    props = [g.iri((g.FOAF if rnd.random() < 0.2 else g.NS) + "q%d" % i) for i in range(rnd.randint(1, 3))]

    def value(kind):
        if kind == "string":
            return g.lit(b.fresh("v"))
        if kind == "integer":
            return g.lit(str(rnd.randint(0, 999)), g.XSD_INTEGER)
        if kind == "langString":
            return g.lit(b.fresh("w"), None, rnd.choice(["en", "es", "en-GB"]))
        if kind == "custom":
            return g.lit(b.fresh("x"), g.CUSTOM_DT)
        if kind == "iri_untyped":
            return g.iri(g.NS + b.fresh("u"))
        if kind == "iri_typed":
            return rnd.choice(typed_iris) if typed_iris else g.iri(g.NS + b.fresh("u"))
        return g.bnode(b.fresh("n"))
    kinds_of = {}
    for p in props:
        kinds = rnd.choice(SAME_PREDICATE_KINDS)
        kinds_of[p] = kinds
        turn = 0
        for n in nodes:
            if rnd.random() < 0.15:
                continue
            for j in range(rnd.choice([1, 1, 2, 2, 3])):
                kind = kinds[turn % len(kinds)] if turn < 2 * len(kinds) else rnd.choice(kinds)
                turn += 1
                b.add(n, p, value(kind))
    triples = list(b.triples)
    rnd.shuffle(triples)
    return {"triples": triples, "nt": g.nt_text(triples), "classes": classes, "instances": instances, "props": props,
            "kinds": {g.nt_term(p): "+".join(k) for p, k in kinds_of.items()}, "out_of_domain": None}


def same_predicate_cases(n, rnd):
    cases = []
    for i in range(n):
        g = same_predicate_graph(rnd)
        sw, thr = gen_graphs.gen_config(rnd, index=i)
        if i % 3 != 2:
            thr = (0, 1)            # every observed (predicate, kind) stays: both constraints of a pair are printed
        cases.append(make_case(g, sw, thr, NS_VARIANTS[i % len(NS_VARIANTS)], "same-predicate-%d" % i))
    return cases


BIG_LINES = 5000      # ShexSerializer._write_line flushes its buffer every 5000 lines


def big_case(nclasses, ns, tag):
    """one class per node, every shape a typing constraint; every 8th node also has a string and an integer value
    of ex:p (two constraints on one predicate) and a link to the next node (a shape reference): about
    6.4 ShExC lines per class"""
    T = "<%s>" % RDF_TYPE
    E = "http://example.org/"
    lines = []
    for i in range(nclasses):
        a = "<%sn%d>" % (E, i)
        lines.append("%s %s <%sK%d> ." % (a, T, E, i))
        if i % 8 == 0:
            lines.append('%s <%sp> "v%d" .' % (a, E, i))
            lines.append('%s <%sp> "%d"^^<%sinteger> .' % (a, E, i, XSD))
            lines.append("%s <%sq> <%sn%d> ." % (a, E, E, (i + 1) % nclasses))
    return {"nt": "\n".join(lines) + "\n", "switches": {}, "thr": [0, 1], "ns": ns,
            "classes": ["%sK%d" % (E, i) for i in range(nclasses)], "tag": tag, "ood": None, "big": nclasses}


def big_cases(tier):
    """documents beyond the serialiser's line buffer: 880 classes (one flush); thorough also 1750 classes with a
    namespaces dictionary (two flushes)"""
    out = [big_case(880, None, "big-880")]
    if tier == "thorough":
        out.append(big_case(1750, NS_VARIANTS[1], "big-1750"))
    return out


def exhaustive_cases():
    """every value kind x cardinality form ({1},{2},{3},+,*,?) x direction as a tiny graph"""
    T = "<%s>" % RDF_TYPE
    E = "http://example.org/"
    cases = []
    # per-instance value counts that yield the form under all-compliant / keep-less-specific defaults
    forms = {"{1}": [1, 1, 1], "{2}": [2, 2, 2], "{3}": [3, 3, 3], "+": [1, 2, 3], "*": [0, 2, 1], "?": [0, 1, 1]}
    kinds = ["string", "integer", "langString", "custom", "IRI", "ref", "BNode", "NONLITERAL"]
    for kind, (form, counts), inv in itertools.product(kinds, forms.items(), (False, True)):
        if inv and kind in ("string", "integer", "langString", "custom"):
            continue
        lines = []
        vcount = [0]

        def val(i, j):
            vcount[0] += 1
            k = vcount[0]
            if kind == "string":
                return '"s%d"' % k
            if kind == "integer":
                return '"%d"^^<%sinteger>' % (k, XSD)
            if kind == "langString":
                return '"l%d"@en' % k
            if kind == "custom":
                return '"c%d"^^<%sdt/custom>' % (k, E)
            if kind == "IRI":
                return "<%su%d>" % (E, k)
            if kind == "BNode":
                return "_:n%d" % k
            if kind == "ref":
                return "<%sd%d>" % (E, k)
            raise ValueError(kind)
        for i, cnt in enumerate(counts):
            a = "<%sa%d>" % (E, i)
            lines.append("%s %s <%sA> ." % (a, T, E))
            vals = []
            for j in range(cnt):
                if kind == "NONLITERAL":
                    # IRI values on even instances, blank nodes on odd ones: the merged statement's
                    # frequency is the sum of the two (1/3 + 2/3 == 1.0 in binary64)
                    vals.append("_:z%d_%d" % (i, j) if i % 2 else "<%sy%d_%d>" % (E, i, j))
                else:
                    vals.append(val(i, j))
            for v in vals:
                if kind == "ref":
                    lines.append("%s %s <%sD> ." % (v, T, E))
                lines.append(("%s <%sp> %s ." % (v, E, a)) if inv else ("%s <%sp> %s ." % (a, E, v)))
        sw = {"inverse_paths": inv}
        cases.append({"nt": "\n".join(lines) + "\n", "switches": sw, "thr": [0, 1], "ns": None, "classes": None,
                      "tag": "exh-%s-%s-%s" % (kind, form, "inv" if inv else "dir"), "ood": None,
                      "want": (kind, form, inv)})
    # the instantiation property: {1}; '?' (second class on some instances); '*' (opt cardinality off); inverse
    base = "<{E}a0> {T} <{E}A> .\n<{E}a1> {T} <{E}A> .\n<{E}a1> {T} <{E}B> .\n<{E}a0> <{E}p> \"x\" .\n".format(E=E, T=T)
    cases.append({"nt": base, "switches": {}, "thr": [0, 1], "ns": None, "classes": None, "tag": "exh-tau-?",
                  "ood": None, "want": ("tau", "?", False)})
    cases.append({"nt": base, "switches": {"allow_opt_cardinality": False}, "thr": [0, 1], "ns": None, "classes": None,
                  "tag": "exh-tau-*", "ood": None, "want": ("tau", "*", False)})
    cases.append({"nt": base, "switches": {"all_instances_are_compliant_mode": False}, "thr": [0, 1], "ns": None,
                  "classes": None, "tag": "exh-tau-1", "ood": None, "want": ("tau", "{1}", False)})
    cases.append({"nt": base + "<{E}A> {T} <{E}K> .\n".format(E=E, T=T), "switches": {"inverse_paths": True},
                  "thr": [0, 1], "ns": None, "classes": None, "tag": "exh-tau-inv", "ood": None,
                  "want": ("tau", "{1}", True)})
    return cases


def want_realised(case, lines):
    """did the tiny graph produce the constraint form it was built for?"""
    kind, form, inv = case["want"]
    ctok = "" if form == "{1}" else form
    for l in lines:
        (linv, pred, restr, mn, mx) = l["tuple"]
        if linv != inv or l["ctok"] != ctok:
            continue
        if kind == "tau" and restr[0] == "value" and (inv or restr[1].endswith("/B") or form == "{1}"):
            return True
        if kind == "ref" and restr[0] == "ref":
            return True
        if kind in ("IRI", "BNode", "NONLITERAL") and restr == ("kind", kind):
            return True
        if kind == "string" and restr == ("datatype", XSD + "string"):
            return True
        if kind == "integer" and restr == ("datatype", XSD + "integer"):
            return True
        if kind == "langString" and restr[0] == "datatype" and restr[1].endswith("langString"):
            return True
        if kind == "custom" and restr[0] == "datatype" and restr[1].endswith("dt/custom"):
            return True
    return False


# --------------------------------------------------------------------------
# grid: synthetic statements through the real serialiser classes
# --------------------------------------------------------------------------

GRID_TYPES = [XSD + "string", XSD + "integer", "http://www.w3.org/1999/02/22-rdf-syntax-ns#langString",
              "http://example.org/dt/custom", "IRI", "BNode", "NONLITERAL", "%<http://weso.es/shapes/D>",
              "%<http://other.org/shapes#D>", ".", "LITERAL", "http://example.org/C", "_:c", "urn:x:C", "dt"]
GRID_CARDS = [1, 2, 3, 12, "+", "*", "?"]
GRID_PROPS = [RDF_TYPE, "http://example.org/p", gen_graphs.FOAF + "name", "urn:x:p", SHAPES_NS + "q"]
GRID_NS = [{SHAPES_NS: ""}, {"http://example.org/": "ex", XSD: "xsd", SHAPES_NS: "", gen_graphs.FOAF: "foaf"}]


def grid_cases():
    return [(inv, p, t, c, nsi) for inv in (False, True) for p in GRID_PROPS for t in GRID_TYPES for c in GRID_CARDS
            for nsi in range(len(GRID_NS))]


def grid_impl(k):
    """one synthetic statement through ShexSerializer and ShaclSerializer"""
    from shexer.model.statement import Statement
    from shexer.model.shape import Shape
    from shexer.io.shex.formater.shex_serializer import ShexSerializer
    from shexer.io.shacl.formater.shacl_serializer import ShaclSerializer
    from shexer.io.shex.formater.statement_serializers.base_statement_serializer import BaseStatementSerializer
    (inv, p, t, c, nsi) = k
    ns = dict(GRID_NS[nsi])
    ser = BaseStatementSerializer(instantiation_property_str=RDF_TYPE, frequency_serializer=None,
                                  disable_comments=True, is_inverse=inv)
    st = Statement(st_property=p, st_type=t, cardinality=c, n_occurences=1, probability=1.0,
                   serializer_object=ser, is_inverse=inv)
    shape = Shape(name="%<" + SHAPES_NS + "A>", class_uri="http://example.org/A", statements=[st], n_instances=1)
    out = {"shexc": None, "shacl": None}
    try:
        text = ShexSerializer(target_file=None, shapes_list=[shape], namespaces_dict=dict(ns), string_return=True,
                              instantiation_property_str=RDF_TYPE, disable_comments=True).serialize_shapes()
        line = [l for l in text.split("\n") if l.startswith("   ") and l.strip()][0]
        toks, _ = canon.tokens_of_line(line.strip())
        out["shexc"] = toks
    except ValueError:
        out["shexc"] = "ValueError"
    except BaseException as e:  # noqa
        out["shexc"] = "other:" + type(e).__name__
    try:
        text = ShaclSerializer(target_file=None, shapes_list=[shape], namespaces_dict=dict(ns), string_return=True,
                               instantiation_property_str=RDF_TYPE).serialize_shapes()
        sd = canon.parse_shacl(text)
        props = sd[SHAPES_NS + "A"]["props"]
        out["shacl"] = props[0]["arcs"] if len(props) == 1 else "n-props:%d" % len(props)
        out["targets"] = sd[SHAPES_NS + "A"]["targets"]
    except ValueError:
        out["shacl"] = "ValueError"
    except BaseException as e:  # noqa
        out["shacl"] = "other:" + type(e).__name__
    return out


def grid_row(k):
    (inv, p, t, c, nsi) = k
    fields = []
    for n, pr in GRID_NS[nsi].items():
        fields += [n, pr]
    return ["1" if inv else "0", p, t, str(c), RDF_TYPE] + fields


# --------------------------------------------------------------------------
# model output decoding
# --------------------------------------------------------------------------

def decode_model(r):
    """fields of one c11_stmt output row"""
    d = {"tok_status": r[0], "tokens": tuple(r[1:5]), "view_status": r[5]}
    if r[5] == "ok":
        kind = {"datatype": "datatype", "kind": "kind", "ref": "ref", "value": "value"}[r[8]]
        d["view"] = (r[6] == "1", r[7], (kind, r[9]), int(r[10]), None if r[11] == "N" else int(r[11][1:]))
    else:
        d["view"] = None
    d["dom"] = r[12] == "1"
    d["shacl_status"] = r[13]
    d["arcs"] = sorted(r[14:]) if r[13] == "ok" else None
    return d


def expected_tokens(line):
    return (line["sense"], line["ptok"], line["vtok"], line["ctok"])


# --------------------------------------------------------------------------
# run
# --------------------------------------------------------------------------

def run(tier, seed, replay=None):
    run = core.Run("C11", tier, seed)
    bs = core.build("C11")
    proofs_ok = core.proof_gate(run, bs)
    rnd = random.Random(seed)
    findings = {f["id"]: f for f in core.load_findings("C11")}
    known_ids = {fid for fid, f in findings.items() if f.get("status") == "known"}

    if replay:
        with open(replay) as f:
            rp = json.load(f)
        cases = [rp["case"]] if "case" in rp else []
        exh = []
        corpus = []
    else:
        exh = exhaustive_cases()
        corpus = load_corpus()
        # the big documents go first: a worker takes them while the others work through the small cases
        cases = corpus + big_cases(tier) + exh + random_cases(20000 if tier == "thorough" else 600, rnd) \
            + same_predicate_cases(4000 if tier == "thorough" else 200, rnd)
    results = core.pool_map(analyse_case, cases, chunksize=16)

    mb = core.ModelBin() if bs.model_ok else None
    if mb is None:
        run.notes.append("model binary unavailable: " + bs.model_log[-800:])

    # ---- model on every constraint line / label of every case (one batch)
    all_rows, all_lrows, owner = [], [], []
    for ci, r in enumerate(results):
        for k, row in enumerate(r["rows"]):
            all_rows.append(row)
            owner.append((ci, k))
        for row in r["label_rows"]:
            all_lrows.append(row)
    model_out = mb.call("c11_stmt", all_rows) if (mb and all_rows) else []
    label_out = mb.call("c11_label", all_lrows) if (mb and all_lrows) else []

    dist = collections.Counter()
    known_hits = collections.Counter()
    spec_fail, corr_fail = [], []
    n_constraints = 0
    nontrivial = 0
    distinct_seen = set()
    kinds_seen = collections.Counter()
    forms_seen = collections.Counter()
    rows_unconfirmed = 0
    shacl_errors = collections.Counter()
    iso_kinds = collections.Counter()
    same_pred = collections.Counter()
    big_seen = []
    pos = 0
    lpos = 0
    realised = []
    samples = []
    for ci, (case, r) in enumerate(zip(cases, results)):
        dist[r["status"]] += 1
        if r["status"] == "harness-error":
            run.internal_errors.append("harness failed on case %s: %s" % (case["tag"], r["error"]))
        if r["status"] != "ok":
            continue
        if r["canon_error"]:
            run.internal_errors.append("canonicaliser failed on case %s: %s" % (case["tag"], r["canon_error"]))
            continue
        if r["unreadable"]:
            for f in r["oracle"]:
                spec_fail.append((ci, f))
            continue
        if r["rows_confirmed"] is False:
            rows_unconfirmed += 1
        lines = r["lines"]
        n = len(lines)
        mrows = [decode_model(x) for x in model_out[pos:pos + n]] if mb else None
        pos += n
        nl = len(r["label_rows"])
        lrows = label_out[lpos:lpos + nl] if mb else None
        lpos += nl
        n_constraints += n
        if "want" in case:
            realised.append((case["tag"], want_realised(case, lines)))
        per_key = collections.Counter((l["shape"], l["tuple"][0], l["tuple"][1]) for l in lines)
        multi = [k for k, v in per_key.items() if v > 1]
        if multi:
            same_pred["cases"] += 1
            same_pred["shapes_x_predicates"] += len(multi)
            for k in multi:
                restr = sorted(str(l["tuple"][2][0] if l["tuple"][2][0] != "kind" else l["tuple"][2][1])
                               for l in lines if (l["shape"], l["tuple"][0], l["tuple"][1]) == k)
                same_pred[("^" if k[1] else "") + "+".join(restr)] += 1
        if case.get("big"):
            big_seen.append({"tag": case["tag"], "classes": case["big"], "shexc_lines": r["shexc"].count("\n"),
                             "buffer_flushes": r["shexc"].count("\n") // BIG_LINES, "shapes": len(r["label_rows"]),
                             "constraint_lines": n, "shacl_characters": len(r["shacl"] or ""),
                             "whole_document_model": (r.get("shacldoc") or {}).get("kind")})
        for l in lines:
            kinds_seen[l["tuple"][2][0] if l["tuple"][2][0] != "kind" else l["tuple"][2][1]] += 1
            forms_seen[("^" if l["tuple"][0] else "") + (l["ctok"] if not l["ctok"].startswith("{") else "{k}")] += 1
        if n and len({l["ctok"] for l in lines}) > 1:
            key = hash((case["nt"], json.dumps(case["switches"], sort_keys=True), tuple(case["thr"]),
                        json.dumps(case.get("ns"), sort_keys=True)))
            if key not in distinct_seen:
                distinct_seen.add(key)
                nontrivial += 1
        if r["shacl_error"]:
            shacl_errors[r["shacl_error"].split(":")[0] + (" (out of domain: non-http(s) predicate or class value)"
                                                           if r["ood_reason"] else " (in domain)")] += 1
        # (i) oracle
        case_fail = False
        for f in r["oracle"]:
            fid = FINDING_OF.get(f["rc"]) if f["rc"] else None
            if fid and fid in known_ids:
                known_hits[fid] += 1
            else:
                case_fail = True
                spec_fail.append((ci, f))
        # model says "inside the proved domain" => the oracle must not have complained about that line
        if mrows is not None:
            bad = {(f["shape"], f["tuple"]) for f in r["oracle"] if f["kind"] == "constraint"}
            for l, m in zip(lines, mrows):
                if m["dom"] and (l["shape"], l["tuple"]) in bad and not case_fail:
                    spec_fail.append((ci, {"kind": "oracle-failure-inside-C11_dom", "shape": l["shape"],
                                           "tuple": l["tuple"], "rc": None}))
        # (ii) correspondence
        if mrows is not None:
            cf = None
            for l, m in zip(lines, mrows):
                if m["tok_status"] != "ok" or m["tokens"] != expected_tokens(l):
                    cf = ("shexc_tokens", l["raw"], m["tokens"], m["tok_status"])
                    break
                if m["view"] != l["tuple"]:
                    cf = ("shex_view", l["raw"], m["view"], l["tuple"])
                    break
            if cf is None:
                for sh_, lr in zip([x for x in _shapes_in_order(lines, r)], lrows):
                    if lr[0] != "ok" or lr[1] != sh_:
                        cf = ("shex_label", sh_, lr[:2], None)
                        break
            if cf is None:
                model_err = any(m["shacl_status"] == "ValueError" for m in mrows) or \
                    any(lr[2] == "ValueError" for lr in lrows)
                # a status other than ok / ValueError: the model has no answer for this statement (the step sequence
                # of the real serialiser, read by tools/gen_consts.py, is not one Model.SerialShacl interprets)
                no_answer = [(l, m) for l, m in zip(lines, mrows) if m["shacl_status"] not in ("ok", "ValueError")]
                if no_answer:
                    cf = ("shacl_arcs (the model does not interpret the serialiser's steps: status %r)"
                          % no_answer[0][1]["shacl_status"], no_answer[0][0]["raw"], None, None)
                elif r["shacl_error"] is not None:
                    if not (r["shacl_error"].startswith("ValueError") and model_err):
                        cf = ("shacl error", r["shacl_error"], "model predicts ValueError: %s" % model_err, None)
                elif model_err:
                    cf = ("shacl error", None, "model predicts ValueError, real code returned a document", None)
                else:
                    by_shape = collections.defaultdict(list)
                    for l, m in zip(lines, mrows):
                        by_shape[l["shape"]].append(tuple(m["arcs"]))
                    for lab in r["shacl_shapes"]:
                        by_shape.setdefault(lab, [])
                    for lab, marcs in by_shape.items():
                        real = sorted(tuple(a) for a in r["shacl_shapes"].get(lab, []))
                        if sorted(marcs) != real:
                            cf = ("shacl_arcs", lab, sorted(marcs), real)
                            break
                    if cf is None:
                        for lr in lrows:
                            if lr[3] not in r["shacl_shapes"]:
                                cf = ("shacl shape IRI", lr[3], sorted(r["shacl_shapes"]), None)
                                break
            if cf is not None:
                corr_fail.append((ci, cf))
        sd = r.get("shacldoc")
        if sd is not None:
            iso_kinds[sd["kind"]] += 1
            if not sd["agree"]:
                corr_fail.append((ci, ("shacl_graph (whole document, isomorphism)", sd["kind"], sd["detail"], None)))
        if len(samples) < 4 and n and ci % 97 == 5:
            samples.append({"tag": case["tag"], "switches": case["switches"], "thr": case["thr"],
                            "n_triples": case["nt"].count("\n"), "constraints": [l["raw"] for l in lines][:6],
                            "oracle_failures": [[f["kind"], f["rc"]] for f in r["oracle"]][:4],
                            "shacl_error": r["shacl_error"]})

    # ---- (iii) grid through the serialiser classes
    grid_n = 0
    grid_fail = []
    if mb and not replay:
        gk = grid_cases()
        gi = core.pool_map(grid_impl, gk, chunksize=64)
        gm = [decode_model(x) for x in mb.call("c11_stmt", [grid_row(k) for k in gk])]
        for k, i, m in zip(gk, gi, gm):
            grid_n += 1
            want_sx = "ValueError" if m["tok_status"] == "ValueError" else \
                [t for t in m["tokens"][:3] if t != ""] + ([m["tokens"][3]] if m["tokens"][3] else [])
            if i["shexc"] != want_sx:
                grid_fail.append((k, "shexc", i["shexc"], want_sx))
                continue
            want_sh = "ValueError" if m["shacl_status"] == "ValueError" else m["arcs"]
            if i["shacl"] != want_sh:
                grid_fail.append((k, "shacl", i["shacl"], want_sh))
            elif want_sh != "ValueError" and i.get("targets") != ["http://example.org/A"]:
                # Model.SerialShacl.shacl_shape: sh:targetClass = the shape's class_uri
                grid_fail.append((k, "shacl targetClass", i.get("targets"), ["http://example.org/A"]))
        for g in grid_fail[:1]:
            corr_fail.append((-1, ("grid %s" % g[1], list(g[0]), g[2], g[3])))

    # ---- vm_compute cross-check of a sample of the binary's answers
    vm_n = 0
    if mb and not replay and all_rows:
        idx = rnd.sample(range(len(all_rows)), min(len(all_rows), 1500 if tier == "thorough" else 400))
        vcases = [("c11_stmt", [all_rows[i] for i in idx[k:k + 25]], [model_out[i] for i in idx[k:k + 25]])
                  for k in range(0, len(idx), 25)]
        if all_lrows:
            vcases.append(("c11_label", all_lrows[:25], label_out[:25]))
        # (small documents only: a cases file of thousands of statements takes coqc tens of minutes)
        for case in [c for c, r in zip(cases, results) if r.get("shacldoc") and r["shacldoc"]["kind"] == "isomorphic"
                     and not c.get("big") and c["nt"].count("\n") <= 200][:6]:
            t = pipe.model_table(shacldoc.ts_of_nt(case["nt"]), shacldoc.cfg_of_c11_case(case))
            vcases.append(("shacl_doc", t, mb.call("shacl_doc", t)))
        _, mism, log = core.vm_crosscheck(vcases, "c11", per_file=4)
        vm_n = len(idx)
        if mism:
            run.internal_errors.append("extracted binary and vm_compute disagree (C11): %s %s" % (mism[:5], log[-300:]))
    if mb:
        mb.close()

    # ---- known findings: replay the pinned reproducers against the real code
    for fid, f in sorted(findings.items()):
        if f.get("status") != "known":
            continue
        rp = f["reproducer"]
        case = {"nt": rp["nt"], "switches": rp.get("switches", {}), "thr": rp.get("threshold", [0, 1]), "ns": None,
                "classes": rp.get("classes"), "tag": "finding-" + fid}
        r = analyse_case(case)
        hit = [x for x in r["oracle"] if x["rc"] and FINDING_OF.get(x["rc"]) == fid]
        if hit:
            run.known_finding(fid, "%s -> ShExC says %s, SHACL has no such property shape" % (
                f["what"][:150], _fmt_tuple(hit[0]["tuple"])))
        else:
            run.notes.append("finding %s no longer reproduces (status %s, oracle failures %r)" % (
                fid, r["status"], r["oracle"][:2]))

    # ---- verdicts
    for (ci, f) in spec_fail[:5]:
        case = cases[ci]
        run.violation("SHACL and ShExC outputs of one Shaper state different constraints: %s %s" % (
            f["kind"], _fmt_tuple(f["tuple"])),
            {"case": _case_payload(case), "failure": {"kind": f["kind"], "shape": f["shape"], "tuple": f["tuple"]},
             "shexc": results[ci]["shexc"], "shacl": results[ci]["shacl"]})
    if not spec_fail:
        if corr_fail:
            ci, cf = corr_fail[0]
            run.violation("correspondence Model.SerialShacl (shexc_tokens / shex_view / shacl_arcs) vs the real "
                          "serialisers no longer checks: %s" % cf[0],
                          {"broken": "correspondence c11_stmt/c11_label", "what_differs": cf[0],
                           "first_case": _case_payload(cases[ci]) if ci >= 0 else {"grid": cf[1]},
                           "detail": [str(x)[:600] for x in cf[1:]], "n_disagreements": len(corr_fail)},
                          failing_input=False)
        elif not proofs_ok:
            run.violation("proof obligations of C11 no longer check",
                          {"broken": "Props/C11.v (C11_views_agree_partial, C11_read_back_partial, "
                                     "C11_shapes_agree_partial, C11_cardinality_table, C11_dom_exact)",
                           "log": "\n".join(run.notes[-2:])}, failing_input=False)
        elif not bs.model_ok:
            run.violation("model no longer builds", {"broken": "Model/Entry extraction", "log": bs.model_log[-1500:]},
                          failing_input=False)

    n_real = [t for t, ok in realised if ok]
    run.coverage.update({
        "evaluations": len(cases) + grid_n,
        "distinct_nontrivial": nontrivial,
        "rule": "one evaluation = one graph x configuration run through one real Shaper (ShExC then SHACL), both "
                "documents parsed, oracle + model on every constraint line; plus the synthetic-statement grid.  "
                "Distinct = different (graph text, switches, threshold, namespaces dict); non-trivial = the run produced "
                "constraint lines with at least two different cardinality forms.  "
                "Graphs: 1-4 classes, 1-6 instances (20 % blank nodes, 20 % multi-class), 1-4 properties, cardinalities "
                "0-3, nine value kinds, 6 % with an out-of-domain feature; switch combinations round-robin over all "
                "2^6; thresholds in {0, 1, k/n}; three namespaces dictionaries.  Same-predicate stream: 1-3 classes, 2-5 "
                "nodes with 1-3 rdf:type values, 1-3 properties whose values are of two or three kinds (datatype pairs, "
                "literal + IRI, IRI + blank node): shapes with several constraints on one predicate and direction "
                "(counted under several_constraints_on_one_predicate_and_direction).  Big documents: one class per node, "
                "880 / 1750 classes, ShExC text beyond the serialiser's 5000-line buffer returned as a string "
                "(documents_beyond_the_line_buffer)",
        "exhaustive": False,
        "exhaustive_part": {"what": "value kind x cardinality form x direction as tiny graphs (+ 4 instantiation cases)",
                            "intended": len(exh), "realised": len(n_real),
                            "not_realised": [t for t, ok in realised if not ok][:12]},
        "grid": {"what": "synthetic Statement objects through ShexSerializer/ShaclSerializer vs model: 2 directions x "
                         "5 predicates x 15 types x 7 cardinalities x 2 namespace dicts (complete product)",
                 "cases": grid_n, "disagreements": len(grid_fail)},
        "status_distribution": dict(dist),
        "constraint_lines": n_constraints,
        "kinds_seen": dict(kinds_seen),
        "forms_seen": dict(forms_seen),
        "real_shacl_errors": dict(shacl_errors),
        "shacl_graph_isomorphism": dict(iso_kinds),
        "several_constraints_on_one_predicate_and_direction": dict(same_pred),
        "documents_beyond_the_line_buffer": big_seen,
        "known_finding_hits": dict(known_hits),
        "corpus_cases_replayed_first": len(corpus),
        "corpus_cases_passing": sum(1 for i in range(len(corpus)) if results[i]["status"] == "ok"
                                    and not results[i]["oracle"]),
        "rows_not_confirmed_by_statement_objects": rows_unconfirmed,
        "vm_compute_crosschecked": vm_n,
        "disagreements_model_vs_impl": len(corr_fail),
        "oracle_failures_unexplained": len(spec_fail),
        "samples": samples,
    })
    run.assumptions = [
        "rdflib (Turtle serialisation by the code under test, Turtle parsing by the harness) is trusted to round-trip "
        "the triples; blank nodes are compared structurally, never by label",
        "the ShExC canonicaliser (harness/vp/canon.py) reads the subset of ShExC sheXer prints; its reading of "
        "IRIs, value expressions and cardinalities mirrors Spec/ConstraintSpec.v (read_tc) and is compared with the "
        "model's shex_view on every line",
        "detect_minimal_iri off, default instantiation property, disable_or_statements default (no OR statements)",
        "whole-document correspondence: the real SHACL document of every case, parsed by rdflib, is isomorphic to the "
        "abstract graph of Model.ShaclDoc.shacl_graph on the shapes of Model.Run.run_shapes (harness/vp/shacldoc.py); "
        "Props/C05.v proves S1-S3 (sh:node objects declared, one path per property shape, one node shape per shape) "
        "about that graph",
        "the class of a shape is taken from the generator (label = shapes namespace + local name of the class)",
    ]
    return run.finish(bs)


def _shapes_in_order(lines, r):
    return [row[0][2:-1] for row in r["label_rows"]]


def _fmt_tuple(t):
    try:
        (inv, pred, restr, mn, mx) = t
        return "%s<%s> %s %s..%s" % ("^" if inv else "", pred, "/".join(map(str, restr)), mn, "" if mx is None else mx)
    except Exception:  # noqa
        return str(t)[:200]


def _case_payload(case):
    return {"nt": case["nt"], "switches": case["switches"], "thr": case["thr"], "ns": case.get("ns"),
            "classes": case.get("classes"), "tag": case.get("tag")}
