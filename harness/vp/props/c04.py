"""C04 -- extraction never crashes on a valid graph and a valid configuration.

Oracle: no exception out of shex_graph (ShExC and SHACL) / profile_graph.

SHACL runs are also corresponded with the SHACL document model: class-based runs with
Model.ShaclDoc.shacl_output after Model.Run.run_shapes (entry shacl_doc), shape-map runs with
Model.RunMapShacl.run_shacl_map (entry shacl_doc_map) -- the real Turtle is parsed by rdflib and compared
with the model's abstract graph up to blank-node renaming (vp.shacldoc), exceptions by class.

Root causes of the known findings are computed from the data, not from the exception:
  rc_shacl_shape_map (C04-F2)  SHACL output of a shape-map extraction, while ShaclSerializer._add_target_class hands
                               the class key to URIRef as it is (the label keeps its corners).  Once the method
                               removes the corners (the code shape is read at run time) the tag excuses nothing.
  rc_shacl_choice    (C04-F3)  SHACL output with disable_or_statements=False when the shapes of that configuration hold
                               a disjunction: the ShExC text of the same run (same case, same configuration) has an
                               ' OR ' constraint.  Without a disjunction the SHACL run must succeed.
"""
import inspect
import random

from vp import pipeprops, pipe, pipemap, shacldoc

pipemap.install()      # shape-map runs (cfg["smap"]) go through Model.RunMap / Shaper(shape_map_raw=...)

_impl_other = pipe.impl_other
_LAST = {}             # observation of the external code of the last shape-map SHACL run (same process, same run)


def _impl_other_map(ts, cfg, kind, timeout=10.0):
    """SHACL output of a shape-map run"""
    if kind == "shacl" and pipemap.is_map(cfg):
        from shexer.consts import SHACL_TURTLE
        r, obs = pipemap.impl_shexc_map(ts, cfg, timeout=timeout, output_format=SHACL_TURTLE, want_obs=True)
        _LAST["obs"] = obs
        _LAST["key"] = id(cfg)
        return r[:3] if r[0] == "err" else r[:2]
    return _impl_other(ts, cfg, kind, timeout)


pipe.impl_other = _impl_other_map
T = pipe.RDF_TYPE

_STRIPS = None


def target_strips_corners():
    """the shape of the code under test: does ShaclSerializer._add_target_class remove the corners of class_uri?"""
    global _STRIPS
    if _STRIPS is None:
        from shexer.io.shacl.formater.shacl_serializer import ShaclSerializer
        _STRIPS = "remove_corners" in inspect.getsource(ShaclSerializer._add_target_class)
    return _STRIPS


def model_doc_map(table):
    """entry shacl_doc_map -> ('ok', flags, rows) | ('err', exception) | ('runerr', exception)"""
    out = shacldoc._mb().call("shacl_doc_map", table)
    h = out[0]
    if h[0] == "ok":
        return ("ok", {"S1": h[1] == "1", "S2": h[2] == "1", "refs_closed": h[3] == "1", "labels_distinct": h[4] == "1"},
                out[1:])
    if h[0] == "runerr":
        return ("runerr", h[2] if len(h) > 2 else h[1])
    return (h[0], h[1])


def adversarial(r):
    """the mixes the property lists: IRI and blank-node values with/without classes, thresholds that keep a
    reference but drop the plain kinds, nodes without outgoing triples, one-instance classes, language tags"""
    e = "http://ex.org/"
    n = r.randint(2, 5)
    inst = [("I", e + "i%d" % k) for k in range(n)]
    vals = [("I", e + "v%d" % k) for k in range(3)] + [("B", "_:w%d" % k) for k in range(3)]
    ts = [(i, T, ("I", e + "C")) for i in inst]
    for v in vals:
        if r.random() < 0.5:
            ts.append((v, T, ("I", e + r.choice(["D", "E"]))))
    for i in inst:
        for p in ("p", "q"):
            for v in r.sample(vals, r.randint(0, 3)):
                ts.append((i, e + p, v))
            if r.random() < 0.3:
                ts.append((i, e + p, ("L", "x", pipe.LANGSTRING, "en")))
    if r.random() < 0.3:
        ts.append((("I", e + "lonely"), T, ("I", e + "F")))
    r.shuffle(ts)
    return ts


def _same_cfg(a, b):
    return all(a.get(k) == b.get(k) for k in set(a) | set(b) if not k.startswith("_"))


class Spec(pipeprops.PropSpec):
    pid = "C04"
    theorems = ("C04_shex_total, C04_map_shacl_total, C04_map_shacl_fails_old / C04_map_shacl_refuted, "
                "C04_shacl_choice_never / C04_shacl_choice_refuted (Props/C04.v)")
    projection = staticmethod(pipeprops.proj_outcome)
    projection_name = "outcome of shex_graph (ShExC): result or exception class"
    rule = ("C01's graphs plus adversarial mixes (a property whose values are IRIs and blank nodes with/without "
            "classes; thresholds between the reference and the plain kinds; nodes without outgoing triples; "
            "one-instance classes; language-tagged literals) x random accepted configurations (all 2^6 switch "
            "assignments, OR on/off, target modes, caps) x {shex_graph ShExC to string and file, shex_graph SHACL "
            "(with the case's own disable_or_statements / allow_redundant_or for two cases in three, the default for "
            "the third), profile_graph to string and file}; "
            "non-trivial = some class with >= 2 instances and some non-typing triple; plus the shape-map stream "
            "(vp.pipemap: node / FOCUS / SPARQL selectors, labels full and prefixed, nodes without triples, "
            "reference chains, all_classes_mode + shape map, remove_empty on/off, OR on/off, model-corresponded), "
            "every third case of it also as SHACL; every SHACL run is corresponded with the SHACL document model "
            "(graph isomorphism through rdflib / exception class)")

    def gen_cases(self, tier, rnd):
        n = 40000 if tier == "thorough" else 2000
        cases = []
        for i in range(n):
            r = random.Random(rnd.getrandbits(48))
            ts = adversarial(r) if i % 2 else pipe.gen_graph(r, general=True)
            if i % 25 == 7:
                # a typing statement whose object is a literal (a literal is not a class): valid RDF
                subj = r.choice([t[0] for t in ts]) if ts and r.random() < 0.7 else ("I", "http://ex.org/zz")
                ts = list(ts) + [(subj, T, ("L", "lit", pipe.XSD + "string"))]
                r.shuffle(ts)
            cfg = pipeprops.random_cfg(r, ts, i)
            if r.random() < 0.3:
                cfg["disable_or_statements"] = False
                cfg["allow_redundant_or"] = r.random() < 0.5
            runs = [(ts, cfg)]
            shacl_cfg = dict(cfg)
            if i % 3 == 2:                                  # the default for a third; the case's own otherwise
                shacl_cfg["disable_or_statements"] = True
                shacl_cfg["allow_redundant_or"] = False
            runs.append((ts, shacl_cfg, "shacl"))
            if i % 4 == 0:
                runs.append((ts, cfg, "profile"))
            if i % 4 == 2:
                runs.append((ts, cfg, "profile_file"))
            if i % 8 == 1:
                runs.append((ts, cfg, "shexc_file"))
            cases.append({"runs": runs, "meta": {}})
        mcases = pipemap.stream(tier, rnd, 1500, 12000, or_rate=0.5)
        for j, c in enumerate(mcases):
            if j % 3 == 0:                   # SHACL output of shape-map extractions
                ts, cfg = c["runs"][0][0], c["runs"][0][1]
                sc = dict(cfg)
                if j % 2 == 0:
                    sc["disable_or_statements"] = True
                    sc["allow_redundant_or"] = False
                c["runs"].append((ts, sc, "shacl"))
        cases += mcases
        cases += _decor_stream(tier, rnd)       # examples_mode / detect_minimal_iri (block below the class)
        return cases

    def model_other(self, ts, cfg, kind, impl):
        """SHACL runs against the SHACL document model (class-based: entry shacl_doc; shape-map: shacl_doc_map)"""
        if kind != "shacl":
            return ("n/a", ""), True
        if pipemap.is_map(cfg):
            obs = _LAST.get("obs")
            if obs is None or _LAST.get("key") != id(cfg):
                _, obs = pipemap.impl_shexc_map(ts, cfg, want_obs=True)
            m = model_doc_map(pipemap.model_table_map(ts, cfg, obs))
            r = shacldoc.compare_outcomes(m, impl)
            tag = "shacl-map-model"
        else:
            r = shacldoc.compare_run(ts, cfg, impl)
            tag = "shacl-model"
        if r["agree"] and r["kind"].startswith("isomorphic"):
            fl = r["flags"]
            if not fl["S2"] or (fl["refs_closed"] and not fl["S1"]):
                return (tag, "model graph violates its own theorem: %r" % fl), False
        return (tag, r["kind"] if r["agree"] else "%s: %s" % (r["kind"], r["detail"])), r["agree"]

    def extra_vm_cases(self, cases, mb, rnd, tier):
        out = []
        want = 8 if tier == "thorough" else 3
        nm = nc = 0
        for c in cases:
            for rn in c["runs"]:
                if len(rn) > 2 and rn[2] == "shacl":
                    if pipemap.is_map(rn[1]) and nm < want:
                        _, obs = pipemap.impl_shexc_map(rn[0], rn[1], want_obs=True)
                        t = pipemap.model_table_map(rn[0], rn[1], obs)
                        out.append(("shacl_doc_map", t, mb.call("shacl_doc_map", t)))
                        nm += 1
                    elif not pipemap.is_map(rn[1]) and nc < want:
                        t = pipe.model_table(rn[0], rn[1])
                        out.append(("shacl_doc", t, mb.call("shacl_doc", t)))
                        nc += 1
        return out

    def oracle(self, case, impl):
        fails = []
        runs = case["runs"]
        for k, (rn, res) in enumerate(zip(runs, impl)):
            kind = rn[2] if len(rn) > 2 else "shexc"
            if res[0] != "ok":
                rc = None
                if kind == "shacl" and res[1] == "ValueError":
                    rc = "rc_shacl_value_error"
                if kind == "shacl" and not rn[1]["disable_or_statements"]:
                    # the shapes of this configuration hold a disjunction: read off the ShExC text of the same
                    # case and configuration (the data), whatever the exception
                    for rn2, res2 in zip(runs, impl):
                        if len(rn2) == 2 and rn2[0] == rn[0] and _same_cfg(rn2[1], rn[1]) and res2[0] == "ok" \
                                and " OR " in res2[1]:
                            rc = "rc_shacl_choice"
                if kind == "shacl" and pipemap.is_map(rn[1]) and not target_strips_corners() and rc is None \
                        and res[1] == "Exception":
                    rc = "rc_shacl_shape_map"
                if kind == "shexc" and res[1] == "TypeError" and not rn[1]["disable_or_statements"] and rn[1]["remove_empty_shapes"]:
                    rc = "rc_choice_prune"
                if rc is None and res[1] == "AttributeError" and any(
                        p == rn[1]["tau"] and o[0] == "L" for (_, p, o) in rn[0]):
                    # the data: a typing statement with a literal object (the same defect as C10-F6; which runs fail
                    # is predicted exactly by the model: Props/C01.v E2E_profile_error, Props/C16.v C16_track_err_iff)
                    rc = "rc_literal_class"
                fails.append((rc, "%s raises %s at %s" % (kind, res[1], res[2] if len(res) > 2 else "")))
        return fails, len(impl)


# --------------------------------------------------------------------------
# examples_mode / detect_minimal_iri: the crash oracle over the decorated runs (run kind "decor" = vp.pipedecor's
# runner: Shaper(..., detect_minimal_iri, examples_mode).shex_graph to a string; model: Model/RunDecor.v).  A crash
# is a violation unless its data-computed root cause (pipedecor.root_cause) is the tag of a listed known finding;
# the tag is never produced once ShexSerializer._serialize_example carries the `candidate is None` guard.
# Self-contained: wraps Spec.oracle / Spec.model_other / pipe.impl_other as they are at this point of the file.
# --------------------------------------------------------------------------
from vp import pipedecor

pipedecor.install()


def _decor_stream(tier, rnd):
    return pipedecor.c04_cases(tier, rnd, [adversarial, lambda r: pipe.gen_graph(r, general=True),
                                           lambda r: pipe.gen_graph(r, general=False)])


def _wrap_for_decor():
    oracle0 = Spec.oracle
    hook0 = getattr(Spec, "model_other", None)

    def oracle(self, case, impl):
        rest = [(rn, res) for rn, res in zip(case["runs"], impl) if not (len(rn) > 2 and rn[2] == pipedecor.KIND)]
        fails, _ = oracle0(self, {"runs": [x[0] for x in rest], "meta": case.get("meta", {})}, [x[1] for x in rest])
        for rn, res in zip(case["runs"], impl):
            if len(rn) > 2 and rn[2] == pipedecor.KIND and res[0] != "ok":
                fails.append((pipedecor.root_cause(rn[0], rn[1], res),
                              "shexc with detect_minimal_iri=%r, examples_mode=%r raises %s at %s" % (
                                  bool(rn[1].get("detect_minimal_iri")), rn[1].get("examples_mode"), res[1],
                                  res[2] if len(res) > 2 else "")))
        return fails, len(impl)

    def model_other(self, ts, cfg, kind, impl):
        prev = (lambda *a: hook0(self, *a)) if hook0 is not None else None
        return pipedecor.model_other(ts, cfg, kind, impl, prev)

    Spec.oracle = oracle
    Spec.model_other = model_other
    Spec.rule += ("; plus the decorated stream (vp.pipedecor.c04_cases: the same graphs x random accepted "
                  "configurations x examples_mode {None, shape, cons, all} x detect_minimal_iri, at least one of the "
                  "two set; target classes without instances with empty shapes kept; model-corresponded with "
                  "Model/RunDecor.v)")


_wrap_for_decor()

def _profile_text_correspondence():
    """profile_graph (Props/C04.v: C04_profile_json_total_iff, C04_profile_json_errors): the profile runs of the
    stream -- and one more on the cases that had none, shape-map cases included -- are compared BYTE FOR BYTE with
    Model.RunProfile.run_profile_json (string and file sink); every figure of the text is recounted from the triples."""
    from vp import pipeprofile
    pipeprofile.attach(Spec, every=2)
    Spec.theorems += ", C04_profile_json_total_iff, C04_profile_json_errors (Props/C04.v)"


_profile_text_correspondence()


def run(tier, seed, replay=None):
    return pipeprops.run_property(Spec(), tier, seed, replay)
