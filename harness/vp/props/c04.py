"""C04 -- extraction never crashes on a valid graph and a valid configuration.

Oracle: no exception out of shex_graph (ShExC and SHACL) / profile_graph."""
import random

from vp import pipeprops, pipe, pipemap

pipemap.install()      # shape-map runs (cfg["smap"]) go through Model.RunMap / Shaper(shape_map_raw=...)

_impl_other = pipe.impl_other


def _impl_other_map(ts, cfg, kind, timeout=10.0):
    """SHACL output of a shape-map run (implementation only)"""
    if kind == "shacl" and pipemap.is_map(cfg):
        from shexer.consts import SHACL_TURTLE
        r = pipemap.impl_shexc_map(ts, cfg, timeout=timeout, output_format=SHACL_TURTLE)
        return r[:3] if r[0] == "err" else r[:2]
    return _impl_other(ts, cfg, kind, timeout)


pipe.impl_other = _impl_other_map
T = pipe.RDF_TYPE


def adversarial(r):
    """the mixes the property lists: IRI and blank-node values with/without classes, thresholds that keep a
    reference but drop the plain kinds, nodes without outgoing triples, one-instance classes, language tags"""
    e = "http://ex.org/"
    n = r.randint(2, 5)
    inst = [("I", e + "i%d" % k) for k in range(n)]
    vals = [("I", e + "v%d" % k) for k in range(3)] + [("B", "_:w%d" % k) for k in range(3)]
    ts = [(i, T, ("I", e + "C")) for i in inst]
    for v in vals:
        if r.random() < 0.5:
            ts.append((v, T, ("I", e + r.choice(["D", "E"]))))
    for i in inst:
        for p in ("p", "q"):
            for v in r.sample(vals, r.randint(0, 3)):
                ts.append((i, e + p, v))
            if r.random() < 0.3:
                ts.append((i, e + p, ("L", "x", pipe.LANGSTRING, "en")))
    if r.random() < 0.3:
        ts.append((("I", e + "lonely"), T, ("I", e + "F")))
    r.shuffle(ts)
    return ts


class Spec(pipeprops.PropSpec):
    pid = "C04"
    theorems = "C04_shex_total (Props/C04.v)"
    projection = staticmethod(pipeprops.proj_outcome)
    projection_name = "outcome of shex_graph (ShExC): result or exception class"
    rule = ("C01's graphs plus adversarial mixes (a property whose values are IRIs and blank nodes with/without "
            "classes; thresholds between the reference and the plain kinds; nodes without outgoing triples; "
            "one-instance classes; language-tagged literals) x random accepted configurations (all 2^6 switch "
            "assignments, OR on/off, target modes, caps) x {shex_graph ShExC to string and file, shex_graph SHACL, profile_graph to string and file}; "
            "non-trivial = some class with >= 2 instances and some non-typing triple; plus the shape-map stream "
            "(vp.pipemap: node / FOCUS / SPARQL selectors, labels full and prefixed, nodes without triples, "
            "reference chains, all_classes_mode + shape map, remove_empty on/off, OR on/off, model-corresponded)")

    def gen_cases(self, tier, rnd):
        n = 40000 if tier == "thorough" else 2000
        cases = []
        for i in range(n):
            r = random.Random(rnd.getrandbits(48))
            ts = adversarial(r) if i % 2 else pipe.gen_graph(r, general=True)
            cfg = pipeprops.random_cfg(r, ts, i)
            if r.random() < 0.3:
                cfg["disable_or_statements"] = False
                cfg["allow_redundant_or"] = r.random() < 0.5
            runs = [(ts, cfg)]
            shacl_cfg = dict(cfg)
            shacl_cfg["disable_or_statements"] = True      # SHACL is specified for the default only
            shacl_cfg["allow_redundant_or"] = False
            runs.append((ts, shacl_cfg, "shacl"))
            if i % 4 == 0:
                runs.append((ts, cfg, "profile"))
            if i % 4 == 2:
                runs.append((ts, cfg, "profile_file"))
            if i % 8 == 1:
                runs.append((ts, cfg, "shexc_file"))
            cases.append({"runs": runs, "meta": {}})
        mcases = pipemap.stream(tier, rnd, 1500, 12000, or_rate=0.5)
        for j, c in enumerate(mcases):
            if j % 3 == 0:                   # SHACL output of shape-map extractions
                ts, cfg = c["runs"][0][0], c["runs"][0][1]
                sc = dict(cfg)
                sc["disable_or_statements"] = True
                sc["allow_redundant_or"] = False
                c["runs"].append((ts, sc, "shacl"))
        cases += mcases
        return cases

    def oracle(self, case, impl):
        fails = []
        for rn, res in zip(case["runs"], impl):
            kind = rn[2] if len(rn) > 2 else "shexc"
            if res[0] != "ok":
                rc = None
                if kind == "shacl" and res[1] == "ValueError":
                    rc = "rc_shacl_value_error"
                if kind == "shacl" and pipemap.is_map(rn[1]) and res[1] == "Exception":
                    rc = "rc_shacl_shape_map"
                if kind == "shexc" and res[1] == "TypeError" and not rn[1]["disable_or_statements"] and rn[1]["remove_empty_shapes"]:
                    rc = "rc_choice_prune"
                fails.append((rc, "%s raises %s at %s" % (kind, res[1], res[2] if len(res) > 2 else "")))
        return fails, len(impl)


def _profile_text_correspondence():
    """profile_graph (Props/C04.v: C04_profile_json_total_iff, C04_profile_json_errors): the profile runs of the
    stream -- and one more on the cases that had none, shape-map cases included -- are compared BYTE FOR BYTE with
    Model.RunProfile.run_profile_json (string and file sink); every figure of the text is recounted from the triples."""
    from vp import pipeprofile
    pipeprofile.attach(Spec, every=2)
    Spec.theorems += ", C04_profile_json_total_iff, C04_profile_json_errors (Props/C04.v)"


_profile_text_correspondence()


def run(tier, seed, replay=None):
    return pipeprops.run_property(Spec(), tier, seed, replay)
