"""C13 -- each option changes only what it documents.

Oracle: one-factor-at-a-time comparison of two real runs that differ in one
constructor argument (pipespec.check_option), plus the option's documented effect read
off the second output (`check_effect`: no comment at all under disable_comments, no
`{k>1}` under disable_exact_cardinality, no `?` without allow_opt_cardinality, and --
recounted from the triples -- `?`/`*` on every constraint that some instance of the
shape does not hold under all_instances_are_compliant_mode).

Streams
  * class pairs: graphs as C01, one option out of 9 flipped (all 2^6 switch assignments);
  * class pairs WITHOUT the typing constraint: the same with `namespaces_to_ignore`
    covering the instantiation property (run kind "shexc_ign", model entry
    pipe_shexc_ign): a class whose instances share one property gives a shape with
    exactly ONE constraint (in one-document class mode the typing constraint is held by
    100 % of the instances, so no threshold removes it);
  * shape-map pairs (vp.pipemap, model Model/RunMap.v): the families of pipemap.gen_run
    and `lone_run` -- labels whose nodes share one property (shapes with exactly one
    constraint), selected nodes without outgoing triples (named by the shape map only, or
    occurring only as objects), uniform value counts (`{k>1}`);
  * sinks: output file vs string.  Fresh Shapers (big outputs across the serializer's
    5000-line buffer), and ONE Shaper asked several times in every order (string->file,
    file->string, repeated calls; run kind "hist:<ops>", s = string_output, f =
    output_file over a stale file): every output of a history must be the text a fresh
    Shaper returns as a string.
"""
import json
import os
import random
import signal
import warnings
from fractions import Fraction

from vp import core, pipeprops, pipespec, pipe, pipemap

pipemap.install()      # shape-map runs (cfg["smap"]) go through Model.RunMap / Shaper(shape_map_raw=...)

E = pipemap.E
SH = pipemap.SH
XS = pipe.XSD + "string"
RDF_NS = "http://www.w3.org/1999/02/22-rdf-syntax-ns#"

OPTIONS = ["disable_comments", "decimals", "mode", "ns", "shapes_ns", "all_instances_are_compliant_mode",
           "allow_opt_cardinality", "disable_exact_cardinality", "disable_or_statements"]
# shape-map runs: the model covers the default shapes namespace only
MAP_OPTIONS = [o for o in OPTIONS if o != "shapes_ns"]
HISTORIES = ["sf", "fs", "ss", "ff", "sfs", "fsf", "ssf", "ffs", "sfsf"]


def flip(option, cfg, r):
    a, b = dict(cfg), dict(cfg)
    if option == "disable_comments":
        a[option], b[option] = False, True
    elif option == "decimals":
        a[option], b[option] = -1, r.choice([0, 1, 2, 3])
        a["mode"] = b["mode"] = "mixed"
        a["disable_comments"] = b["disable_comments"] = False
    elif option == "mode":
        a[option], b[option] = r.sample(["ratio", "abs", "mixed"], 2)
    elif option == "ns":
        a[option], b[option] = [], r.sample(pipeprops.NS_POOL, r.randint(1, 4))
    elif option == "shapes_ns":
        a[option], b[option] = pipe.DEFAULT_SHAPES_NS, "http://my.shapes/ns#"
    elif option in ("all_instances_are_compliant_mode", "allow_opt_cardinality"):
        a[option], b[option] = True, False
    elif option == "disable_exact_cardinality":
        a[option], b[option] = False, True
    elif option == "disable_or_statements":
        a[option], b[option] = True, False
        a["allow_redundant_or"] = False          # allow_redundant_or without OR statements is a rejected configuration
        b["allow_redundant_or"] = r.random() < 0.5
    return a, b


# --------------------------------------------------------------------------
# generators
# --------------------------------------------------------------------------

def values_of(r, kind, m, others):
    if kind == "lit":
        return [("L", "v%d" % j, XS) for j in range(m)]
    if kind == "int":
        return [("L", "%d" % j, pipe.XSD + "integer") for j in range(m)]
    if kind == "iri":
        return [("I", E + "u%d" % j) for j in range(m)]
    if kind == "bnode":
        return [("B", "_:w%d" % j) for j in range(m)]
    return r.sample(others, min(m, len(others)))


def lone_graph(r, typed=False):
    """labels L0.. whose nodes share ONE property (sometimes two): value counts uniform over the holders more often
    than not ({k}), some nodes of a label without any value -- such a node has no outgoing triple at all, and occurs
    as an object of an unlabelled node or nowhere in the document.  Returns (triples, [(node, label)])"""
    nlab = r.choice([1, 1, 2, 2, 3])
    groups = [[("I", E + "n%d_%d" % (li, k)) for k in range(r.randint(2, 4))] for li in range(nlab)]
    allnodes = [n for g in groups for n in g]
    ts = []
    for li, nodes in enumerate(groups):
        props = [E + "p%d" % li]
        if r.random() < 0.3:
            props.append(E + r.choice(["q", "p0", "p1"]))
        for p in dict.fromkeys(props):
            kind = r.choice(["lit", "lit", "int", "iri", "bnode", "ref"])
            typical = r.choice([None, 1, 2, 2, 3])
            for n in nodes:
                m = r.choice([0, 1, 2, 3]) if (typical is None or r.random() < 0.2) else typical
                if r.random() < 0.3:
                    m = 0
                for o in values_of(r, kind, m, [x for x in allnodes if x != n]):
                    ts.append((n, p, o))
        if typed:
            for n in nodes:
                if r.random() < 0.5:
                    ts.append((n, pipe.RDF_TYPE, ("I", E + "C%d" % r.randint(0, 1))))
    subj = {s for s, _, _ in ts}
    for n in allnodes:
        if n not in subj and r.random() < 0.5:
            ts.append((("I", E + "m%d" % r.randint(0, 1)), E + "link", n))
    ts = list(dict.fromkeys(ts))
    r.shuffle(ts)
    return ts, [(n, SH + "L%d" % li) for li, nodes in enumerate(groups) for n in nodes]


def lone_run(r, base, absolute=False):
    """shape-map run over lone_graph; absolute: every reference of the shape map written <iri> (so that the
    namespaces dictionary is a pure presentation argument)"""
    cfg = dict(base)
    typed = r.random() < 0.3
    ts, pairs = lone_graph(r, typed)
    ns = [(E, "ex"), (SH, "sh")] + ([r.choice(pipemap.NS_POOL[2:])] if r.random() < 0.3 else [])
    r.shuffle(ns)
    cfg.update({"ns": ns, "targets": [], "cap": -1, "all_classes": typed and r.random() < 0.5, "smap": {"tau": None}})

    def ref(iri, n, p):
        return ["A", iri] if (absolute or r.random() < 0.7) else ["P", p, iri[len(n):]]
    items = [[["node", ref(n[1], E, "ex")], ref(lab, SH, "sh")] for n, lab in pairs if r.random() < 0.95]
    if not items:
        items = [[["node", ["A", pairs[0][0][1]]], ["A", pairs[0][1]]]]
    r.shuffle(items)
    pipemap.render(cfg, items, r, layout=False)
    cfg["smap"]["answers"] = {}
    return ts, cfg


def lone_class_graph(r):
    """classes whose instances share one property: without the typing constraint a shape with one constraint"""
    ts, pairs = lone_graph(r)
    for n, lab in pairs:
        ts.insert(r.randint(0, len(ts)), (n, pipe.RDF_TYPE, ("I", E + "K" + lab[len(SH):])))
    return ts


def low_threshold(r, thresholds):
    return (0, 1) if r.random() < 0.4 else r.choice(thresholds)


def map_pair(r, i):
    opt = MAP_OPTIONS[i % len(MAP_OPTIONS)]
    j = i // len(MAP_OPTIONS)
    if opt == "ns" or j % 3 != 2:
        base = pipe.switch_cfg(j)
        base["mode"] = r.choice(["mixed", "mixed", "mixed", "ratio", "abs"])
        base["remove_empty_shapes"] = r.random() < 0.7
        if r.random() < 0.2:
            base["disable_or_statements"] = False
            base["allow_redundant_or"] = r.random() < 0.5
        ts, cfg = lone_run(r, base, absolute=(opt == "ns"))
        cfg["thr"] = low_threshold(r, pipemap.thresholds_map(ts, cfg, r))
        fam = "lone"
    else:
        ts, cfg, fam = pipemap.gen_run(r, j, only_iri=True, sparql=False)
    pipemap.note_case(fam, cfg)
    note_inputs(ts, cfg)
    a, b = flip(opt, cfg, r)
    return {"runs": [(ts, a), (ts, b)], "meta": {"option": opt, "stream": "shape-map", "family": fam}}


def note_inputs(ts, cfg):
    """generation-time statistics (parent process; printed under coverage.shape_map_stream), from the data: selected
    nodes without outgoing triples, labels whose nodes use exactly one property"""
    inst = pipespec.spec_instances(ts, cfg)
    subj = {s[1] for s, _, _ in ts}
    objs = {o[1] for _, _, o in ts if o[0] != "L"}
    props = {}
    for s, p, o in ts:
        for k in inst.get(s[1], []):
            props.setdefault(k, set()).add(p)
    st = pipemap.STATS
    bare = [i for i in inst if i not in subj]
    st["c13:map_pairs"] += 1
    st["c13:map_pairs_with_a_selected_node_without_outgoing_triples"] += bool(bare)
    st["c13:map_pairs_with_such_a_node_absent_from_the_document"] += any(i not in objs for i in bare)
    st["c13:labels"] += len({k for ks in inst.values() for k in ks})
    st["c13:labels_whose_nodes_use_exactly_one_property"] += sum(1 for k, ps in props.items() if len(ps) == 1)


def ign_pair(r, i):
    """class mode, namespaces_to_ignore covers the instantiation property: no typing constraint in any shape"""
    opt = OPTIONS[i % len(OPTIONS)]
    j = i // len(OPTIONS)
    ts = lone_class_graph(r) if j % 3 != 2 else pipe.gen_graph(r, general=(j % 2 == 0))
    cfg = pipeprops.random_cfg(r, ts, j)
    cfg["cap"] = -1
    if r.random() < 0.5:
        cfg["thr"] = (0, 1)
    cfg["ign"] = [RDF_NS] + ([r.choice(["http://other.org/ns#", "http://ex.org/a/", "http://www.w3.org/1999/02/"])]
                             if r.random() < 0.3 else [])
    a, b = flip(opt, cfg, r)
    return {"runs": [(ts, a, "shexc_ign"), (ts, b, "shexc_ign")], "meta": {"option": opt, "stream": "no-typing-constraint"}}


def sink_case(r, i):
    """one Shaper asked several times (every order of the two sinks), against a fresh Shaper's string"""
    k = i % 3
    if k == 0:
        ts = pipe.gen_graph(r, general=(i % 2 == 0))
        cfg = pipeprops.random_cfg(r, ts, i)
    elif k == 1:
        ts = lone_class_graph(r)
        cfg = pipeprops.random_cfg(r, ts, i)
        if r.random() < 0.5:
            cfg["ign"] = [RDF_NS]
            cfg["cap"] = -1
    else:
        base = pipe.switch_cfg(i)
        base["mode"] = r.choice(["mixed", "ratio", "abs"])
        if i % 2:
            ts, cfg = lone_run(r, base)
            cfg["thr"] = low_threshold(r, pipemap.thresholds_map(ts, cfg, r))
        else:
            ts, cfg, _ = pipemap.gen_run(r, i, only_iri=True, sparql=False)
    hs = ["sf", "fs"] + r.sample(HISTORIES[2:], 1)
    first = (ts, cfg, "shexc_ign") if cfg.get("ign") else (ts, cfg)
    return {"runs": [first] + [(ts, cfg, "hist:" + h) for h in hs],
            "meta": {"option": "sink", "stream": "one-shaper", "classes": None}}


# --------------------------------------------------------------------------
# the real code for the run kinds of this check
# --------------------------------------------------------------------------

_impl_other = pipe.impl_other
SINK_DIR = os.path.join(core.WORK, "sink")


def shaper_kw(cfg):
    kw = pipemap.shaper_kwargs_map(cfg) if pipemap.is_map(cfg) else pipe.shaper_kwargs(cfg)
    if cfg.get("ign"):
        kw["namespaces_to_ignore"] = list(cfg["ign"])
    return kw


def impl_hist(ts, cfg, ops, timeout=40.0):
    """('ok', JSON list of the texts of the calls) | ('err', exception class, 'call k: innermost shexer frame')"""
    from shexer.shaper import Shaper
    warnings.filterwarnings("ignore")
    k, m = cfg["thr"]
    os.makedirs(SINK_DIR, exist_ok=True)
    path = os.path.join(SINK_DIR, "hist_%d.shex" % os.getpid())
    outs = []
    old = signal.signal(signal.SIGALRM, pipe._alarm)
    signal.setitimer(signal.ITIMER_REAL, timeout)
    try:
        sh = Shaper(raw_graph=pipe.nt_doc(ts), **shaper_kw(cfg))
        for op in ops:
            if op == "s":
                outs.append(sh.shex_graph(string_output=True, acceptance_threshold=(k / m)))
            else:
                with open(path, "w") as f:          # the path is being reused: what it held must disappear
                    f.write("# stale\n:Stale {\n   :p  IRI\n}\n" * 50)
                sh.shex_graph(output_file=path, acceptance_threshold=(k / m))
                with open(path, newline="") as f:
                    outs.append(f.read())
        return ("ok", json.dumps(outs))
    except pipe.Hang:
        return ("err", "Hang", "call %d" % len(outs))
    except Exception as e:  # noqa: BLE001
        import traceback
        frames = [f for f in traceback.extract_tb(e.__traceback__) if "/shexer/" in f.filename]
        where = "%s:%d:%s" % (frames[-1].filename.split("/shexer/")[-1], frames[-1].lineno, frames[-1].name) if frames else ""
        return ("err", type(e).__name__, "call %d: %s" % (len(outs), where))
    finally:
        signal.setitimer(signal.ITIMER_REAL, 0)
        signal.signal(signal.SIGALRM, old)
        if os.path.exists(path):
            os.remove(path)


def _impl_other_c13(ts, cfg, kind, timeout=10.0):
    if kind == "shexc_ign":
        return pipe.impl_shexc(ts, cfg, timeout=timeout, extra_kw={"namespaces_to_ignore": list(cfg["ign"])})
    if kind.startswith("hist:"):
        return impl_hist(ts, cfg, kind[5:])
    return _impl_other(ts, cfg, kind, timeout)


pipe.impl_other = _impl_other_c13


def ign_table(ts, cfg):
    return pipe.model_table(ts, cfg) + [["X", x] for x in cfg["ign"]]


# --------------------------------------------------------------------------
# the documented effect of an option, read off the output it governs
# --------------------------------------------------------------------------

_FOREIGN = None


def foreign_tags():
    """root-cause tags of the known findings of C01 / C02 (figures and keys: their checks own them)"""
    global _FOREIGN
    if _FOREIGN is None:
        _FOREIGN = {f["root_cause_tag"] for pid in ("C01", "C02") for f in core.load_findings(pid)
                    if f.get("status") == "known" and f.get("root_cause_tag")}
    return _FOREIGN


def check_effect(cfg, doc, ts):
    """what the switches of cfg promise about the document of their run (doc = pipe.canon of the text)"""
    fails = []
    cons = [(sh, c) for sh in doc["shapes"] for c in sh["constraints"]]
    if cfg["disable_comments"]:
        for sh in doc["shapes"]:
            if sh["n"] is not None:
                fails.append((None, "disable_comments leaves the instance count on the header of %s" % sh["label"]))
        for sh, c in cons:
            if c["fig"] != (None, None) or c["comments"]:
                fails.append((None, "disable_comments leaves a comment on %s %s of %s" % (
                    "^" if c["inv"] else "", c["pred"], sh["label"])))
    if cfg["disable_exact_cardinality"]:
        for sh, c in cons:
            if c["card"].startswith("{") and int(c["card"].strip("{}")) > 1:
                fails.append((None, "disable_exact_cardinality keeps %s on %s of %s" % (c["card"], c["pred"], sh["label"])))
    if not cfg["allow_opt_cardinality"]:
        for sh, c in cons:
            if c["card"] == "?":
                fails.append((None, "allow_opt_cardinality=False prints ? on %s of %s" % (c["pred"], sh["label"])))
    if not cfg["all_instances_are_compliant_mode"]:
        for sh, c in cons:
            if c["card"] in ("?", "*"):
                fails.append((None, "all_instances_are_compliant_mode=False prints %s on %s of %s" % (
                    c["card"], c["pred"], sh["label"])))
    else:
        # all-compliant mode: a constraint that some instance of the shape does not hold must admit zero values.
        # Recounted from the triples: the share of the instances with >= 1 value of the constraint's (direction,
        # predicate, value class) -- an upper bound of the share holding the printed constraint.
        inst, n_of, exp, nl = pipespec.expected_keys(ts, cfg)
        for sh, c in cons:
            cl = pipespec.class_of_label(sh["label"], inst, cfg["shapes_ns"])
            if len(cl) != 1 or not n_of[cl[0]] or c["card"] in ("?", "*"):
                continue
            key = (c["inv"], c["pred"], pipe.value_class(c["values"], c["pred"], cfg["tau"]))
            if len(c["values"]) > 1:
                key = (c["inv"], c["pred"], "nonliteral")
            share = exp[cl[0]].get(key, Fraction(0))
            if share < 1:
                rc = None
                if key[2] == "nonliteral":
                    d = "i" if c["inv"] else "d"
                    members = [i for i, cs in inst.items() if cl[0] in cs]
                    if any(nl[(i, d, c["pred"])][0] > 0 and nl[(i, d, c["pred"])][1] > 0 for i in members):
                        rc = "rc_nonliteral_overlap"    # C01's finding: IRI and BNode holders added up
                fails.append((rc, "all-compliant mode keeps cardinality %s on %s%s %r of %s although only %s of its "
                                  "instances have such a value" % (c["card"], "^ " if c["inv"] else "", c["pred"],
                                                                   c["values"], sh["label"], share)))
    return [(rc, d) for rc, d in fails if rc not in foreign_tags()]


RC_SHAPES_NS = "rc_custom_shapes_ns_reference_survives_cleaning"


def shapes_ns_root_cause(cfg_b, doc_b, ts):
    """C13-F2 (root cause of C05-F1 seen from C13): the profiler mints shape references in the DEFAULT shapes
    namespace whatever shapes_namespace says, and the cleaning of empty shapes drops the candidates referring to a
    removed shape by NAME: under a custom namespace the reference survives and wins the node-kind merge, where the
    default-namespace run falls back to IRI / BNode (and cascades from there).  Computed from the data and the
    document of the custom-namespace run: it prints a default-namespace reference to a class of the data that has
    instances and no shape in that document."""
    if not cfg_b["remove_empty_shapes"] or cfg_b["shapes_ns"] == pipe.DEFAULT_SHAPES_NS:
        return None
    inst = pipespec.spec_instances(ts, cfg_b)
    printed = {sh["label"] for sh in doc_b["shapes"]}
    gone = {"@" + pipespec.shape_label(c, pipe.DEFAULT_SHAPES_NS) for cs in inst.values() for c in cs
            if pipespec.shape_label(c, cfg_b["shapes_ns"]) not in printed}
    if any(v in gone for sh in doc_b["shapes"] for c in sh["constraints"] for v in c["values"]):
        return RC_SHAPES_NS
    return None


class Spec(pipeprops.PropSpec):
    pid = "C13"
    theorems = "C13_disable_comments, C13_allow_opt, C13_disable_exact, C13_all_compliant, C13_report_mode (Props/C13.v)"
    projection = staticmethod(pipeprops.proj_text)
    projection_name = "ShExC text, byte for byte (after the ratio shim)"
    rule = ("graphs as C01; for every case one option out of 9 is flipped (one-factor-at-a-time) under a random "
            "assignment of all the other options (all 2^6 switch assignments round-robin) and the two real outputs are "
            "related; the same pairs (a) in class mode with namespaces_to_ignore covering the instantiation property "
            "(no typing constraint: shapes with exactly one constraint), (b) on shape-map configurations (pipemap "
            "families + labels whose nodes share one property, selected nodes without outgoing triples); sinks: "
            "fresh Shapers on outputs beyond the 5000-line buffer, and one Shaper asked for string and file in every "
            "order and repeatedly, every output against a fresh Shaper's string; "
            "non-trivial = some class / label with >= 2 instances and some non-typing triple")

    def gen_cases(self, tier, rnd):
        thorough = tier == "thorough"
        n = 27000 if thorough else 1800
        cases = []
        for i in range(n):
            r = random.Random(rnd.getrandbits(48))
            ts = pipe.gen_graph(r, general=(i % 3 != 0))
            cfg = pipeprops.random_cfg(r, ts, i // len(OPTIONS))
            opt = OPTIONS[i % len(OPTIONS)]
            a, b = flip(opt, cfg, r)
            cases.append({"runs": [(ts, a), (ts, b)], "meta": {"option": opt}})
        for i in range(9000 if thorough else 720):
            cases.append(map_pair(random.Random(rnd.getrandbits(48)), i))
        for i in range(5400 if thorough else 450):
            cases.append(ign_pair(random.Random(rnd.getrandbits(48)), i))
        for i in range(3000 if thorough else 240):
            cases.append(sink_case(random.Random(rnd.getrandbits(48)), i))
        # output file vs string on outputs that cross the serializer's 5000-line buffer once / twice
        for nclasses in ([900] if not thorough else [700, 900, 1800]):
            e = "http://ex.org/"
            ts = []
            for i in range(nclasses):
                n = ("I", e + "n%d" % i)
                ts.append((n, pipe.RDF_TYPE, ("I", e + "K%d" % i)))
                ts.append((n, e + "p", ("L", "v", pipe.XSD + "string")))
                ts.append((n, e + "q", ("I", e + "n%d" % ((i + 1) % nclasses))))
            cfg = pipe.base_cfg()
            cases.append({"runs": [(ts, cfg), (ts, cfg, "shexc_file"), (ts, cfg, "hist:sf"), (ts, cfg, "hist:fs")],
                          "meta": {"option": "sink", "classes": nclasses}})
        return cases

    def model_other(self, ts, cfg, kind, impl):
        if kind != "shexc_ign":
            return ("n/a", ""), True          # sinks: related to the model through the fresh string run of their case
        row = pipeprops._mb().call("pipe_shexc_ign", ign_table(ts, cfg))[0]
        m = ("ok", pipe.shim(row[1], cfg["decimals"])) if row[0] == "ok" else ("err", row[1])
        ok = m == tuple(impl[:2])
        return ("ign-model", "agrees" if ok else "DISAGREES", list(m)), ok

    def extra_vm_cases(self, cases, mb, rnd, tier):
        out = []
        pool = [c for c in cases if c["meta"].get("stream") == "no-typing-constraint"]
        for c in rnd.sample(pool, min(len(pool), 12 if tier == "thorough" else 3)):
            t = ign_table(c["runs"][0][0], c["runs"][0][1])
            out.append(("pipe_shexc_ign", t, mb.call("pipe_shexc_ign", t)))
        return out

    def oracle(self, case, impl):
        if case["meta"]["option"] == "sink":
            return self.sink_oracle(case, impl)
        if any(r[0] != "ok" for r in impl):
            return [], 0
        (ts, a), (_, b) = case["runs"][0][:2], case["runs"][1][:2]
        da, db = pipe.canon(impl[0][1]), pipe.canon(impl[1][1])
        fails = pipespec.check_option(case["meta"]["option"], a, b, da, db, ts)
        if fails and case["meta"]["option"] == "shapes_ns":
            rc = shapes_ns_root_cause(b, db, ts)
            fails = [(rc if r is None else r, d) for r, d in fails]
        fails += check_effect(a, da, ts)
        for f in check_effect(b, db, ts):
            if f not in fails:
                fails.append(f)
        return fails, 1

    def sink_oracle(self, case, impl):
        big = case["meta"].get("classes")
        if impl[0][0] != "ok":
            if big:
                return [(None, "big extraction failed: %r" % (impl[0][:3],))], 1
            return [], 0
        fails = []
        want = impl[0][1]
        for rn, res in list(zip(case["runs"], impl))[1:]:
            kind = rn[2]
            if res[0] != "ok":
                fails.append((None, "%s fails (%s %s) where a fresh Shaper returns the shapes as a string" % (
                    kind, res[1], res[2] if len(res) > 2 else "")))
                continue
            if kind == "shexc_file":
                if res[1] != want:
                    fails.append((None, "file output differs from string output (%d vs %d characters)" % (
                        len(res[1]), len(want))))
                continue
            ops = kind[5:]
            for k, text in enumerate(json.loads(res[1])):
                if text != want:
                    n0 = sum(len(s["constraints"]) for s in pipe.canon(want)["shapes"])
                    n1 = sum(len(s["constraints"]) for s in pipe.canon(text)["shapes"])
                    fails.append((None, "one Shaper, calls %s (s = string_output, f = output_file): the %s output of "
                                        "call %d differs from a fresh Shaper's string output (%d vs %d constraints, "
                                        "%d vs %d characters)" % ("->".join(ops), "file" if ops[k] == "f" else "string",
                                                                  k + 1, n1, n0, len(text), len(want))))
                    break
        if big:
            n = len(pipe.canon(want)["shapes"])
            if n != big:
                fails.append((None, "string output holds %d shapes for %d classes" % (n, big)))
        return fails, len(impl) - 1


def run(tier, seed, replay=None):
    return pipeprops.run_property(Spec(), tier, seed, replay)
