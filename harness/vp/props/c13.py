"""C13 -- each option changes only what it documents.

Oracle: one-factor-at-a-time comparison of two real runs that differ in one
constructor argument (pipespec.check_option)."""
import random

from vp import pipeprops, pipespec, pipe

OPTIONS = ["disable_comments", "decimals", "mode", "ns", "shapes_ns", "all_instances_are_compliant_mode",
           "allow_opt_cardinality", "disable_exact_cardinality", "disable_or_statements"]


def flip(option, cfg, r):
    a, b = dict(cfg), dict(cfg)
    if option == "disable_comments":
        a[option], b[option] = False, True
    elif option == "decimals":
        a[option], b[option] = -1, r.choice([0, 1, 2, 3])
        a["mode"] = b["mode"] = "mixed"
        a["disable_comments"] = b["disable_comments"] = False
    elif option == "mode":
        a[option], b[option] = r.sample(["ratio", "abs", "mixed"], 2)
    elif option == "ns":
        a[option], b[option] = [], r.sample(pipeprops.NS_POOL, r.randint(1, 4))
    elif option == "shapes_ns":
        a[option], b[option] = pipe.DEFAULT_SHAPES_NS, "http://my.shapes/ns#"
    elif option in ("all_instances_are_compliant_mode", "allow_opt_cardinality"):
        a[option], b[option] = True, False
    elif option == "disable_exact_cardinality":
        a[option], b[option] = False, True
    elif option == "disable_or_statements":
        a[option], b[option] = True, False
        b["allow_redundant_or"] = r.random() < 0.5
    return a, b


class Spec(pipeprops.PropSpec):
    pid = "C13"
    theorems = "C13_disable_comments, C13_allow_opt, C13_disable_exact, C13_all_compliant, C13_report_mode (Props/C13.v)"
    projection = staticmethod(pipeprops.proj_text)
    projection_name = "ShExC text, byte for byte (after the ratio shim)"
    rule = ("graphs as C01; for every case one option out of 9 is flipped (one-factor-at-a-time) under a random "
            "assignment of all the other options (all 2^6 switch assignments round-robin) and the two real outputs are "
            "related; non-trivial = some class with >= 2 instances and some non-typing triple")

    def gen_cases(self, tier, rnd):
        n = 27000 if tier == "thorough" else 1800
        cases = []
        for i in range(n):
            r = random.Random(rnd.getrandbits(48))
            ts = pipe.gen_graph(r, general=(i % 3 != 0))
            cfg = pipeprops.random_cfg(r, ts, i // len(OPTIONS))
            opt = OPTIONS[i % len(OPTIONS)]
            a, b = flip(opt, cfg, r)
            cases.append({"runs": [(ts, a), (ts, b)], "meta": {"option": opt}})
        # output file vs string on outputs that cross the serializer's 5000-line buffer once / twice
        for nclasses in ([900] if tier != "thorough" else [700, 900, 1800]):
            e = "http://ex.org/"
            ts = []
            for i in range(nclasses):
                n = ("I", e + "n%d" % i)
                ts.append((n, pipe.RDF_TYPE, ("I", e + "K%d" % i)))
                ts.append((n, e + "p", ("L", "v", pipe.XSD + "string")))
                ts.append((n, e + "q", ("I", e + "n%d" % ((i + 1) % nclasses))))
            cfg = pipe.base_cfg()
            cases.append({"runs": [(ts, cfg), (ts, cfg, "shexc_file")], "meta": {"option": "sink", "classes": nclasses}})
        return cases

    def oracle(self, case, impl):
        if case["meta"]["option"] == "sink":
            fails = []
            if impl[0][0] != "ok" or impl[1][0] != "ok":
                return [(None, "big extraction failed: %r" % ([r[:2] for r in impl if r[0] != "ok"],))], 1
            if impl[0][1] != impl[1][1]:
                fails.append((None, "file output differs from string output (%d vs %d characters)" % (
                    len(impl[1][1]), len(impl[0][1]))))
            n = len(pipe.canon(impl[0][1])["shapes"])
            if n != case["meta"]["classes"]:
                fails.append((None, "string output holds %d shapes for %d classes" % (n, case["meta"]["classes"])))
            return fails, 1
        if any(r[0] != "ok" for r in impl):
            return [], 0
        (ts, a), (_, b) = case["runs"][0][:2], case["runs"][1][:2]
        fails = pipespec.check_option(case["meta"]["option"], a, b, pipe.canon(impl[0][1]), pipe.canon(impl[1][1]), ts)
        return fails, 1


def run(tier, seed, replay=None):
    return pipeprops.run_property(Spec(), tier, seed, replay)
