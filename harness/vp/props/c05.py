"""C05 -- produced schemas are well-formed and closed.

Theorems: Props/C05.v (about the model's text).  Correspondence: raw ShExC
text byte for byte (model = implementation).  Oracle: the recogniser and the
closure checks of Spec/ShexcGrammar.v, *extracted* and run on the REAL ShExC
text (entry c05_recognise); for SHACL: rdflib parses the text, every sh:node
object is a declared sh:NodeShape, every property shape has exactly one path.

Root causes of the known findings are computed here from the property text:
  rc_custom_shapes_namespace  shapes_namespace is not the default one
  rc_shared_local_name        two class IRIs of the run share their local name
  rc_parsed_prefix_collision  the rdflib-parsed input declares a prefix already in use (shapes prefix or a user's)
"""
import glob
import os
import random
import re

from vp import core, pipe, pipeprops, pipespec, shacldoc, pipemap

pipemap.install()      # shape-map runs (cfg["smap"]) go through Model.RunMap / Shaper(shape_map_raw=...)
T = pipe.RDF_TYPE
DEFAULT_NS = pipe.DEFAULT_SHAPES_NS
PRIORITY = ["", "weso-s", "shapes", "w-shapes"]          # the property text's list of default shape prefixes

# user dictionaries colliding with the default shape prefixes
COLLIDE = [("http://a.example/x/", ""), ("http://b.example/y#", "weso-s"), ("http://c.example/", "shapes"),
           ("http://d.example/z/", "w-shapes")]
PLAIN = [("http://ex.org/", "ex"), ("http://www.w3.org/2001/XMLSchema#", "xsd"),
         ("http://www.w3.org/1999/02/22-rdf-syntax-ns#", "rdf"), ("http://other.org/ns#", "oth"),
         ("http://third.org/a.b/", "t-3.x")]
CUSTOM_NS = ["http://custom.example/shapes#", "http://my.shapes/ns/"]

# --------------------------------------------------------------------------
# extra run kinds (implementation only): registered by wrapping pipe.impl_other
# --------------------------------------------------------------------------
_orig_impl_other = pipe.impl_other


def _impl_other(ts, cfg, kind, timeout=10.0):
    if kind == "shexc_only":          # the random-prefix fallback is outside the model (oracle-only)
        return pipe.impl_shexc(ts, cfg, timeout=timeout)
    if kind == "shexc_map":           # shape-map labels are outside the pipeline model (oracle-only)
        return pipe.impl_shexc(ts, cfg, timeout=timeout,
                               extra_kw={"shape_map_raw": cfg["_shape_map"], "all_classes_mode": False,
                                         "target_classes": None})
    if kind == "shexc_ttl":           # Turtle input parsed by rdflib (its prefixes are adopted): oracle-only
        return pipe.impl_shexc(ts, cfg, doc=cfg["_doc"], timeout=timeout, extra_kw={"input_format": "turtle"})
    if kind == "shacl_shapes":        # a synthetic shape list through ShaclSerializer itself (vp/shacldoc.py)
        return shacldoc.impl_shapes(cfg["_spec"])
    return _orig_impl_other(ts, cfg, kind, timeout)


pipe.impl_other = _impl_other


# --------------------------------------------------------------------------
# generators
# --------------------------------------------------------------------------

def class_iris(ts, cfg):
    out = []
    for s, p, o in ts:
        if p == cfg["tau"] and o[0] != "L" and o[1] not in out:
            out.append(o[1])
    for c in ([] if cfg["all_classes"] else cfg["targets"]):
        if c not in out:
            out.append(c)
    return out


def shared_local_names(ts, cfg):
    seen = {}
    for c in class_iris(ts, cfg):
        ln = pipespec.local_name(c)
        if ln in seen and seen[ln] != c:
            return True
        seen[ln] = c
    return False


def share_a_local_name(ts, r):
    """rename one class so that two classes of different namespaces share a local name"""
    classes = sorted({o[1] for s, p, o in ts if p == T and o[0] == "I"})
    if len(classes) < 2:
        return ts
    a, b = r.sample(classes, 2)
    new_b = ("http://second.org/ns#" if not a.startswith("http://second.org/") else "http://ex.org/") + pipespec.local_name(a)
    ren = lambda x: (x[0], new_b) + tuple(x[2:]) if x[0] == "I" and x[1] == b else x
    out, seen = [], set()
    for s, p, o in ts:
        t = (ren(s), p, ren(o))
        if t not in seen:
            seen.add(t)
            out.append(t)
    return out


def odd_local_names(ts, r):
    """local names with inner dots, dashes, underscores, leading digits (all valid PN_LOCAL)"""
    pool = ["a.b", "x-y", "_u", "9lives", "A.b-c_d", "q-", "v1.2.3"]
    names = {}

    def ren(x):
        if x[0] != "I" or not re.search(r"[/#](C|n|p|u)\d+$", x[1]):
            return x
        if x[1] not in names:
            cut = max(x[1].rfind("/"), x[1].rfind("#")) + 1
            names[x[1]] = x[1][:cut] + pool[len(names) % len(pool)] + x[1][cut:]
        return (x[0], names[x[1]]) + tuple(x[2:])

    out = []
    for s, p, o in ts:
        if p != T and re.search(r"[/#]p\d+$", p):
            if p not in names:
                cut = max(p.rfind("/"), p.rfind("#")) + 1
                names[p] = p[:cut] + pool[len(names) % len(pool)] + p[cut:]
            p = names[p]
        out.append((ren(s), p, ren(o)))
    return out


def shape_map_for(ts, cfg, r):
    """node selectors -> labels given as full IRIs or prefixed names (pairwise distinct local names); some
    selected nodes have no outgoing triple, so their shape is empty and gets removed with its referrers"""
    if not any(n == "http://ex.org/" for n, _ in cfg["ns"]):
        cfg["ns"] = cfg["ns"] + [("http://ex.org/", "ex")]
    exp = [p for n, p in cfg["ns"] if n == "http://ex.org/"][0]
    labels = ["<http://ex.org/shapes/S0>", "%s:S1" % exp, "<http://weso.es/shapes/S2>", "<http://lab.example/x#S3>"]
    r.shuffle(labels)
    labels = labels[:r.randint(2, 4)]
    nodes = []
    for s, p, o in ts:
        for x in (s, o):
            if x[0] == "I" and x[1] not in nodes and not re.search(r"[/#]C\d+$", x[1]):
                nodes.append(x[1])
    lines = []
    for n in nodes:
        for lab in r.sample(labels, r.choice([0, 1, 1, 2])):
            lines.append("<%s>@%s" % (n, lab))
    if not lines:
        lines.append("<%s>@%s" % (nodes[0] if nodes else "http://ex.org/none", labels[0]))
    return "\n".join(lines)


def chain_case(r, cfg):
    """reference chains/cascades between shape-map labels: layers L0 -> L1 -> ... -> sink, where the sink nodes have no
    outgoing triple (their shape is empty and removed), the middle layers only point downwards (they become empty
    once the layer below is gone), L0 also has a literal (survives); with branching (two sinks / two properties),
    cycles inside a middle layer that still end in a sink, and class-typed middle nodes (which keep their shape)"""
    e = "http://ex.org/"
    depth = r.randint(2, 4)
    if not any(n == e for n, _ in cfg["ns"]):
        cfg["ns"] = cfg["ns"] + [(e, "ex")]
    exp = [p for n, p in cfg["ns"] if n == e][0]
    forms = [lambda k: "<http://ex.org/shapes/L%d>" % k, lambda k: "%s:L%d" % (exp, k),
             lambda k: "<http://weso.es/shapes/L%d>" % k, lambda k: "<http://lab.example/x#L%d>" % k]
    label = {k: r.choice(forms)(k) for k in range(depth + 1)}
    width = r.randint(1, 3)
    layer = {k: [("I", e + "n%d_%d" % (k, j)) for j in range(width)] for k in range(depth + 1)}
    ts, lines = [], []
    branch = r.random() < 0.4           # a second sink label reached from the last middle layer
    if branch:
        label["x"] = "<http://ex.org/shapes/LX>"
        layer["x"] = [("I", e + "x%d" % j) for j in range(width)]
    cyc = r.choice([None, None] + list(range(1, depth))) if depth > 1 else None
    typed = r.choice([None, None, None] + list(range(1, depth))) if depth > 1 else None
    for k in range(depth):
        for j, n in enumerate(layer[k]):
            for m in (layer[k + 1] if r.random() < 0.5 else layer[k + 1][:1]):
                ts.append((n, e + "q%d" % k, m))
            if k == 0:
                ts.append((n, e + "name", ("L", "v%d" % j, pipe.XSD + "string")))
            if k == depth - 1 and branch:
                ts.append((n, e + ("q%d" % k if r.random() < 0.5 else "r"), layer["x"][j % width]))
            if cyc == k:
                ts.append((n, e + "loop", layer[k][(j + 1) % width]))
            if typed == k and r.random() < 0.7:
                ts.append((n, T, ("I", e + "C%d" % k)))
    for k in list(range(depth + 1)) + (["x"] if branch else []):
        for n in layer[k]:
            lines.append("<%s>@%s" % (n[1], label[k]))
    r.shuffle(ts)
    r.shuffle(lines)
    cfg["_shape_map"] = "\n".join(lines)
    cfg["all_classes"] = False
    cfg["targets"] = []
    cfg["cap"] = -1
    cfg["remove_empty_shapes"] = r.random() < 0.9
    cfg["thr"] = (0, 1) if r.random() < 0.8 else cfg["thr"]
    return ts


def turtle_doc(ts, prefix):
    """the triples as a Turtle document that declares `prefix` for http://ex.org/ (rdflib hands it to sheXer)"""
    return "@prefix %s: <http://ex.org/> .\n" % prefix + pipe.nt_doc(ts)


def c05_cfg(r, ts, idx):
    cfg = pipeprops.random_cfg(r, ts, idx)
    k = r.random()
    user = []
    if k < 0.8:
        user = r.sample(PLAIN, r.randint(0, 3))
        ncol = r.choice([0, 1, 1, 2, 2, 3, 3])
        user += r.sample(COLLIDE, ncol)
        r.shuffle(user)
    cfg["ns"] = user
    if r.random() < 0.12:      # the user's dictionary already names the shapes namespace
        cfg["ns"] = cfg["ns"] + [(DEFAULT_NS, "mine")]
    if r.random() < 0.3:
        cfg["disable_or_statements"] = False
        cfg["allow_redundant_or"] = r.random() < 0.5
    return cfg


def gen_cases(tier, rnd):
    n = 30000 if tier == "thorough" else 800
    cases = []
    for i in range(n):
        r = random.Random(rnd.getrandbits(48))
        two = i % 3 == 0
        ns = ("http://ex.org/", "http://other.org/ns#") if two else ("http://ex.org/",)
        ts = pipe.gen_graph(r, general=(i % 4 != 0), namespaces=ns)
        stream = "base"
        if i % 10 == 3:
            ts = odd_local_names(ts, r)
            stream = "odd-local-names"
        cfg = c05_cfg(r, ts, i)
        if i % 12 == 5:
            ts = share_a_local_name(ts, r)
            stream = "shared-local-name"
        if i % 8 == 6:
            cfg["shapes_ns"] = r.choice(CUSTOM_NS)
            stream = "custom-shapes-namespace"
            if r.random() < 0.3:
                cfg["ns"] = [x for x in cfg["ns"] if x[0] != cfg["shapes_ns"]] + [(cfg["shapes_ns"], "own")]
        if i % 16 == 9:
            # every priority prefix taken: the constructor falls back to a random 3-letter prefix (oracle only)
            cfg["ns"] = r.sample(PLAIN, r.randint(0, 2)) + COLLIDE
            r.shuffle(cfg["ns"])
            runs = [(ts, cfg, "shexc_only")]
            stream = "random-prefix-fallback"
        elif i % 40 == 21:
            cfg["ns"] = [x for x in cfg["ns"] if x[0] != "http://ex.org/" and x[1] not in ("", "ex")]
            cfg["_doc_prefix"] = r.choice(["", "", "ex", "weso-s"])
            cfg["_doc"] = turtle_doc(ts, cfg["_doc_prefix"])
            runs = [(ts, cfg, "shexc_ttl")]
            stream = "turtle-parsed-prefixes"
        elif i % 16 == 1:
            ts, cfg = pipemap.chain_run(r, cfg)           # model-corresponded (Model.RunMap)
            pipemap.note_case("chains", cfg)
            runs = [(ts, cfg)]
            stream = "reference-chains"
        elif i % 16 == 13:
            pipemap.smap_from_text(cfg, shape_map_for(ts, cfg, r))
            cfg["all_classes"] = False
            cfg["targets"] = []
            cfg["cap"] = -1
            pipemap.note_case("labels", cfg)
            runs = [(ts, cfg)]                            # model-corresponded (Model.RunMap)
            stream = "shape-map-labels"
        else:
            runs = [(ts, cfg)]
        if i % 5 == 2 and not pipemap.is_map(cfg) and "_doc" not in cfg and len(runs) == 1 and len(runs[0]) == 2:
            # the same document through output_file, at a path that already holds a schema (pipe.impl_other writes
            # stale content first): what the file contains is judged like the string
            runs.append((ts, cfg, "shexc_file"))
        if i % 2 == 0 and not pipemap.is_map(cfg) and "_doc" not in cfg:
            sc = dict(cfg)
            sc["disable_or_statements"] = True      # SHACL is specified for the default only
            sc["allow_redundant_or"] = False
            runs.append((ts, sc, "shacl"))
        cases.append({"runs": runs, "meta": {"i": i, "stream": stream}})
    # class runs whose typing constraints are ignored (namespaces_to_ignore covers the instantiation property): a class
    # WITH instances can then have an empty shape and still be referenced (run kind "shexc_ign", implementation only)
    for i in range(3000 if tier == "thorough" else 150):
        r = random.Random(rnd.getrandbits(48))
        ts = pipe.gen_graph(r, general=(i % 3 != 0))
        cfg = c05_cfg(r, ts, i)
        if i % 3 == 1:
            # a node whose only statement is its class membership, referenced by an instance of another class
            e_ = "http://ex.org/"
            subj = [t[0] for t in ts if t[1] == pipe.RDF_TYPE and t[0][0] == "I"]
            if subj:
                ts = list(ts) + [(("I", e_ + "lone%d" % i), pipe.RDF_TYPE, ("I", e_ + "Lone")),
                                 (r.choice(subj), e_ + "pl", ("I", e_ + "lone%d" % i))]
        cfg["ign"] = ["http://www.w3.org/1999/02/22-rdf-syntax-ns#"]
        cfg["remove_empty_shapes"] = r.random() < 0.7
        cfg["thr"] = r.choice([[0, 1], [1, 2], [1, 1], [2, 3]])
        cases.append({"runs": [(ts, cfg, "shexc_ign")], "meta": {"i": i, "stream": "no-typing-constraint"}})
    # documents that cross the serialiser's 5000-line buffer (once; thorough: twice): the text returned as a string
    # must still declare every prefix and define every referenced shape (what is flushed must not be lost)
    for nclasses in ([900] if tier != "thorough" else [900, 1800]):
        e = "http://ex.org/"
        big = []
        for k in range(nclasses):
            node = ("I", e + "n%d" % k)
            big.append((node, pipe.RDF_TYPE, ("I", e + "K%d" % k)))
            big.append((node, e + "p", ("L", "v", pipe.XSD + "string")))
            big.append((node, e + "q", ("I", e + "n%d" % ((k + 1) % nclasses))))
        cases.append({"runs": [(big, pipe.base_cfg())], "meta": {"i": -1, "stream": "beyond-the-line-buffer"}})
    # serialiser level: synthetic shape lists (faults, detect_minimal_iri) against Model.ShaclDoc.shacl_graph_gen
    grid = shacldoc.grid_specs(random.Random(rnd.getrandbits(48)), 4000 if tier == "thorough" else 400)
    for k, spec in enumerate(grid):
        gc = pipe.base_cfg()
        gc["_spec"] = spec
        cases[(k * 2) % len(cases)]["runs"].append(([], gc, "shacl_shapes"))
    for c in pipemap.stream(tier, rnd, 300, 4000):       # selectors of every kind, all_classes_mode + shape map, OR on/off
        c["meta"]["stream"] = "shape-map-general"
        cases.append(c)
    return cases


# --------------------------------------------------------------------------
# oracle
# --------------------------------------------------------------------------

def recognise(text):
    """the extracted Coq recogniser + closure checks -> None | (check, position, detail)"""
    out = pipeprops._mb().call("c05_recognise", [[text]])[0]
    if out[0] == "ok":
        return None
    return (out[1], int(out[2]), out[3])


def check_shacl(text, ts=None, cfg=None):
    """S1-S3 of Spec/ShaclGraphSpec.v on the REAL document (rdflib): every sh:node object is a declared
    sh:NodeShape; every property shape has exactly one path in the accepted encoding; the node shapes are IRIs,
    each typed once with exactly one sh:targetClass, a class of the input whose label it is.
    -> (list of (check, description), number of checked items)"""
    classes, label_of = None, None
    if ts is not None:
        classes = class_iris(ts, cfg)
        label_of = lambda c: cfg["shapes_ns"] + pipespec.local_name(c)   # noqa: E731
    return shacldoc.oracle(text, classes, label_of)


def root_cause(check, ts, cfg):
    if check == "prefixes_functional" and "_doc_prefix" in cfg:
        # the parsed document declares a prefix already in use: the one the constructor picks for the shapes
        # namespace, or one of the user's dictionary (for another namespace)
        taken = [x[1] for x in cfg["ns"] if x[0] != "http://ex.org/"]
        chosen = [p for p in PRIORITY if p not in [x[1] for x in cfg["ns"]]][:1]
        if cfg["_doc_prefix"] in taken + chosen:
            return "rc_parsed_prefix_collision"
    if check in ("refs_resolve", "node") and cfg["shapes_ns"] != DEFAULT_NS:
        return "rc_custom_shapes_namespace"
    if check == "labels_distinct" and shared_local_names(ts, cfg):
        return "rc_shared_local_name"
    if check in ("refs_resolve", "node") and cfg.get("ign") and cfg["remove_empty_shapes"] and any(
            cfg["tau"].startswith(n_) for n_ in cfg["ign"]):
        # the data: typing constraints are ignored and empty shapes are removed: a class with instances can lose its
        # shape while the shapes of its referrers keep '@:Class' (finding C05-F4)
        return "rc_reference_to_emptied_class"
    return None


def fallback_prefix_ok(text, cfg):
    """all four priority prefixes taken: the shapes namespace must get a fresh, syntactically valid prefix"""
    m = re.search(r"^PREFIX ([^:\s]*): <%s>$" % re.escape(cfg["shapes_ns"]), text, re.M)
    if not m:
        return "no PREFIX line for the shapes namespace"
    p = m.group(1)
    if p in [x[1] for x in cfg["ns"]]:
        return "fallback prefix %r is one of the user's" % p
    if not re.match(r"^[A-Za-z]([A-Za-z0-9_.-]*[A-Za-z0-9_-])?$", p):
        return "fallback prefix %r is not a PN_PREFIX" % p
    return None


_impl_other_before_ign = pipe.impl_other


def _impl_other_c05(ts, cfg, kind, timeout=10.0):
    if kind == "shexc_ign":
        return pipe.impl_shexc(ts, cfg, timeout=timeout, extra_kw={"namespaces_to_ignore": list(cfg["ign"])})
    return _impl_other_before_ign(ts, cfg, kind, timeout)


pipe.impl_other = _impl_other_c05


class Spec(pipeprops.PropSpec):
    pid = "C05"
    theorems = ("C05_prefix_map_functional, C05_prefix_fallback_iff, C05_prefix_overwrite, C05_tokens_declared, "
                "C05_tokens_local_clean, C05_tokens_pname, C05_lines_recognised, C05_document_recognised, "
                "C05_closed_text, C05_wellformed_closed_partial; SHACL half: C05_shacl_node_objects_declared, "
                "C05_shacl_one_path, C05_shacl_node_shapes_iff, C05_shacl_one_node_shape_per_shape, C05_shacl_any_detect, "
                "C05_shacl_graph_total, C05_shacl_wellformed, C05_run_refs_closed, C05_shacl_run (Props/C05.v)")
    projection = staticmethod(pipeprops.proj_text)
    projection_name = ("ShExC text, byte for byte (after the ratio shim); SHACL runs: the parsed document is isomorphic "
                       "to the abstract graph of Model.ShaclDoc (entries shacl_doc / shacl_doc_shapes)")
    rule = ("C01's graphs (general and schema-consistent, one or two namespaces) x all 2^6 switch assignments "
            "round-robin x thresholds on every k/n boundary x targets/all-classes x caps x remove_empty on/off x OR "
            "on/off x user dictionaries colliding with 0-3 of the default shape prefixes ('', weso-s, shapes, w-shapes) "
            "or naming the shapes namespace; streams: all four prefixes taken (random fallback, oracle only), shape-map "
            "labels as full IRIs / prefixed names with nodes without triples, reference chains/cascades between "
            "labels ending in sinks (length 2-4, branching, cycles, class-typed nodes) and general shape maps (vp.pipemap) "
            "-- all three model-corresponded byte for byte through Model.RunMap --, Turtle input whose parsed "
            "prefixes are adopted (oracle only; finding when it declares a default shape prefix), custom "
            "shapes_namespace (finding), two classes sharing a local name (finding), local names with dots/dashes/"
            "leading digits; every second case also SHACL (oracle S1-S3 + isomorphism with the model's abstract graph); "
            "400 (thorough 4 000) synthetic shape lists through ShaclSerializer itself (ill-formed labels / references, "
            "non-http(s) predicates and class values, detect_minimal_iri with present / None / missing patterns); "
            "distinct = distinct (document, configuration); "
            "non-trivial = some class with >= 2 instances and some non-typing triple")
    assumptions = ["the ShExC oracle is the Coq recogniser of Spec/ShexcGrammar.v (a subset of the ShEx 2.1 compact "
                   "grammar: it rejects more than the grammar, never less), extracted to OCaml",
                   "ShExC keywords are case-insensitive (ShEx 2.1 grammar): 'BNode' is read as BNODE",
                   "SHACL: an inverse constraint encoded as a property shape without sh:path and exactly one nested "
                   "sh:property [sh:inversePath p] counts as one path (the encoding the golden files pin)",
                   "SHACL half: the oracle checks S1-S3 of Spec/ShaclGraphSpec.v on the REAL document (rdflib); the same "
                   "three statements are theorems about Model.ShaclDoc.shacl_graph (C05_shacl_node_objects_declared, "
                   "C05_shacl_one_path, C05_shacl_one_node_shape_per_shape; end to end C05_shacl_run), and every real SHACL "
                   "document of this run (Shaper level and ShaclSerializer level, faults and detect_minimal_iri included) "
                   "is compared with that graph by rdflib.compare.isomorphic (coverage: other_model_correspondence)",
                   "rdflib's Turtle writer and parser are trusted to round-trip the triples of the serialiser's graph; "
                   "rdflib 6.0.2 prints rdf:type in object position without declaring the rdf: prefix when the document "
                   "has no other rdf: term (reached only at the ShaclSerializer level with an instantiation property "
                   "other than rdf:type): those documents are parsed after declaring the prefix and counted apart"]
    golden_note = ""

    def gen_cases(self, tier, rnd):
        self.golden_note = golden_calibration()
        cases = gen_cases(tier, rnd)
        self.golden_note += ".  " + domain_statistics(cases, 4000 if tier == "thorough" else 800)
        return cases

    def oracle(self, case, impl):
        fails, n = [], 0
        for rn, res in zip(case["runs"], impl):
            ts, cfg = rn[0], rn[1]
            kind = rn[2] if len(rn) > 2 else "shexc"
            if res[0] != "ok":
                continue                      # crashes are C04's subject
            if kind in ("shexc", "shexc_only", "shexc_map", "shexc_ttl", "shexc_file", "shexc_ign"):
                n += 1
                bad = recognise(res[1])
                if bad is not None and kind == "shexc" and not pipemap.is_map(cfg) and in_proved_domain(ts, cfg):
                    # the theorem says this cannot happen for the model's text, and the correspondence says the
                    # real text is the model's: never attributed to a known finding
                    fails.append((None, "inside C05_dom with refs_closed and distinct labels, yet check %s fails "
                                        "(theorem C05_wellformed_closed_partial vs implementation)" % bad[0]))
                    continue
                if bad is not None:
                    check, pos, detail = bad
                    ctx = res[1][max(0, pos - 40):pos + 20] if check in ("lex", "parse") else detail
                    fails.append((root_cause(check, ts, cfg), "ShExC output fails check %s at %d: %r" % (check, pos, ctx)))
                if kind == "shexc_only":
                    n += 1
                    why = fallback_prefix_ok(res[1], cfg)
                    if why:
                        fails.append((None, why))
            elif kind == "shacl":
                fl, k = check_shacl(res[1], ts, cfg)
                n += k
                for what, desc in fl:
                    fails.append((root_cause(what, ts, cfg), desc))
            elif kind == "shacl_shapes":
                # synthetic lists have dangling references and repeated labels on purpose: only S2 is judged
                fl, k = shacldoc.oracle(res[1] if not shacldoc.UNDECLARED_RDF(res[1]) else
                                        "@prefix rdf: <%s> .\n" % shacldoc.RDFNS + res[1])
                n += k
                for what, desc in fl:
                    if what in ("path", "parse"):
                        fails.append((None, "serialiser level: " + desc))
        return fails, n

    def model_other(self, ts, cfg, kind, impl):
        """the SHACL document model: real document isomorphic (rdflib) to Model.ShaclDoc's abstract graph"""
        if kind == "shacl":
            r = shacldoc.compare_run(ts, cfg, impl)
        elif kind == "shacl_shapes":
            m = shacldoc.model_doc(shacldoc.table_of_shapes(cfg["_spec"]), "shacl_doc_shapes")
            r = shacldoc.compare_outcomes(m, impl)
        else:
            return ("n/a", ""), True
        if r["agree"] and r["kind"].startswith("isomorphic") and kind == "shacl":
            fl = r["flags"]
            # the theorems, evaluated on the model's own graph: S2 always; S1 whenever the references resolve
            if not fl["S2"] or (fl["refs_closed"] and not fl["S1"]):
                return ("shacl-model", "model graph violates its own theorem: %r" % fl), False
        return ("shacl-model", r["kind"] if r["agree"] else "%s: %s" % (r["kind"], r["detail"])), r["agree"]

    def extra_vm_cases(self, cases, mb, rnd, tier):
        out = []
        want = 16 if tier == "thorough" else 6
        for c in cases:
            for rn in c["runs"]:
                if len(rn) > 2 and rn[2] == "shacl" and len([x for x in out if x[0] == "shacl_doc"]) < want:
                    t = pipe.model_table(rn[0], rn[1])
                    out.append(("shacl_doc", t, mb.call("shacl_doc", t)))
                if len(rn) > 2 and rn[2] == "shacl_shapes" and len([x for x in out if x[0] == "shacl_doc_shapes"]) < want:
                    t = shacldoc.table_of_shapes(rn[1]["_spec"])
                    out.append(("shacl_doc_shapes", t, mb.call("shacl_doc_shapes", t)))
        return out

    def domain_note(self):
        return ("C05_dom: default shapes_namespace, class IRIs with pairwise distinct shape labels, user dictionary "
                "with valid pairwise distinct prefixes not taking all four priority prefixes, IRIs made of IRIREF "
                "characters whose local names are PN_LOCAL.  " + self.golden_note)


def dom_row(mb, ts, cfg):
    """[ran, C05_dom, refs_closed, labels distinct] of the model's shape list for this run"""
    return [x == "1" for x in mb.call("c05_dom", pipe.model_table(ts, cfg))[0]]


def in_proved_domain(ts, cfg):
    return all(dom_row(pipeprops._mb(), ts, cfg))


def domain_statistics(cases, limit):
    """how many generated ShExC runs satisfy the hypotheses of C05_wellformed_closed_partial (evaluated by the model binary)"""
    mb = core.ModelBin()
    stats = {}
    n = 0
    for c in cases:
        for rn in c["runs"]:
            if len(rn) > 2 or pipemap.is_map(rn[1]):
                continue
            if n >= limit:
                break
            n += 1
            ran, dom, refs, nodup = dom_row(mb, rn[0], rn[1])
            key = "model-error" if not ran else ("inside" if dom and refs and nodup else
                                                 "outside:" + ",".join(k for k, v in (("C05_dom", dom), ("refs_closed", refs),
                                                                                       ("labels_distinct", nodup)) if not v))
            stats[key] = stats.get(key, 0) + 1
    mb.close()
    return "hypotheses of C05_wellformed_closed_partial on %d generated ShExC runs: %s" % (
        n, ", ".join("%s %d" % kv for kv in sorted(stats.items())))


def golden_calibration():
    """self-validation of the recogniser on the golden .shex files of the suite"""
    files = sorted(glob.glob(os.path.join(core.REPO, "test", "t_files", "**", "*.shex"), recursive=True))
    mb = core.ModelBin()
    acc, rej = 0, []
    for f in files:
        with open(f, encoding="utf-8") as fh:
            text = fh.read()
        out = mb.call("c05_recognise", [[text]])[0]
        if out[0] == "ok":
            acc += 1
            continue
        pos = int(out[2])
        if out[1] == "lex" and text[pos - 1:pos + 1] == "//" or text[pos:pos + 2] == "//":
            why = "annotation '//' (examples_mode, outside the property)"
        elif out[1] == "refs_resolve" and "shapes_namespace" in f:
            why = "dangling reference pinned by the golden file (finding C05-F1)"
        else:
            mb.close()
            raise core.InternalError("recogniser rejects golden file %s: %s at %d %r" % (f, out[1], pos, out[3]))
        rej.append("%s: %s" % (os.path.relpath(f, os.path.join(core.REPO, "test", "t_files")), why))
    mb.close()
    return "golden files: %d of %d accepted; rejected: %s" % (acc, len(files), "; ".join(rej))


def run(tier, seed, replay=None):
    return pipeprops.run_property(Spec(), tier, seed, replay)
