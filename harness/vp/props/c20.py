"""C20 -- contradictory or unsupported configurations are rejected up front.

Theorems: Props/C20.v (ctor_iff on C20_dom, accept_sound everywhere, call_iff).
Correspondence: bounded-exhaustive enumeration of abstract configurations,
instantiated with dummy values and handed to the real Shaper(...) / shex_graph.
Oracle for the failing-input search: the property's reference predicate,
re-written here in Python independently of model and code.
"""
import itertools
import os
import random
import warnings

from vp import core

SRC = ["graph_file_input", "graph_list_of_files_input", "raw_graph", "url_graph_input",
       "list_of_url_input", "url_endpoint", "rdflib_graph"]
TGT = ["target_classes", "file_target_classes", "shape_map_file", "shape_map_raw"]
FORMATS = ["nt", "tsv_spo", "n3", "turtle", "xml", "json-ld", "turtle_iter", "bogus"]
COMPR = [None, "gz", "zip", "xz", "bogus"]
EXAMPLES = [None, "all", "cons", "shape", "bogus"]

D = os.path.join(core.WORK, "c20")
_FILES = {}


def _prepare_files():
    """tiny graph in every input format, plain and compressed"""
    import gzip
    import lzma
    import zipfile
    import rdflib
    os.makedirs(D, exist_ok=True)
    nt = '<http://e/a> <http://www.w3.org/1999/02/22-rdf-syntax-ns#type> <http://e/C> .\n'
    g = rdflib.Graph().parse(data=nt, format="nt")
    texts = {"nt": nt, "tsv_spo": nt.replace("> <", ">\t<").replace("> .", ">\t."), "turtle_iter": nt,
             "bogus": nt, "n3": g.serialize(format="n3"), "turtle": g.serialize(format="turtle"),
             "xml": g.serialize(format="xml"), "json-ld": g.serialize(format="json-ld")}
    for fmt, text in texts.items():
        base = os.path.join(D, "g_%s" % fmt.replace("-", "_"))
        with open(base, "w") as f:
            f.write(text)
        with gzip.open(base + ".gz", "wt") as f:
            f.write(text)
        with lzma.open(base + ".xz", "wt") as f:
            f.write(text)
        with zipfile.ZipFile(base + ".zip", "w") as z:
            z.writestr("g", text)
        _FILES[fmt] = (base, text)
    with open(os.path.join(D, "tc.txt"), "w") as f:
        f.write("<http://e/C>\n")
    with open(os.path.join(D, "sm.txt"), "w") as f:
        f.write("<http://e/a>@<http://sh/A>\n")
    _FILES["graph"] = g
    _FILES["empty_graph"] = rdflib.Graph()


def kwargs_of(c):
    (srcs, tgts, acm, fmt, compr, ex, dis_or, red_or) = c
    base, text = _FILES[fmt]
    path = base if compr in (None, "bogus") else base + "." + compr
    vals = {"graph_file_input": path, "graph_list_of_files_input": [path], "raw_graph": text,
            "url_graph_input": "file://" + base, "list_of_url_input": ["file://" + base],
            "url_endpoint": "http://localhost:1/sparql", "rdflib_graph": _FILES["graph"],
            "target_classes": ["http://e/C"], "file_target_classes": os.path.join(D, "tc.txt"),
            "shape_map_file": os.path.join(D, "sm.txt"), "shape_map_raw": "<http://e/a>@<http://sh/A>"}
    # an argument can be PRESENT with a falsy value (on == 2): "", [] or an empty rdflib graph are not None
    falsy = {"graph_file_input": "", "graph_list_of_files_input": [], "raw_graph": "", "url_graph_input": "",
             "list_of_url_input": [], "url_endpoint": "", "rdflib_graph": _FILES["empty_graph"],
             "target_classes": [], "file_target_classes": "", "shape_map_file": "", "shape_map_raw": ""}
    kw = {}
    for name, on in zip(SRC, srcs):
        if on:
            kw[name] = falsy[name] if on == 2 else vals[name]
    for name, on in zip(TGT, tgts):
        if on:
            kw[name] = falsy[name] if on == 2 else vals[name]
    kw.update(all_classes_mode=acm, input_format=fmt, compression_mode=compr, examples_mode=ex,
              disable_or_statements=dis_or, allow_redundant_or=red_or)
    return kw


def impl_ctor(c):
    from shexer.shaper import Shaper
    warnings.filterwarnings("ignore")
    try:
        Shaper(**kwargs_of(c))
        return "accept"
    except ValueError:
        return "ValueError"
    except BaseException as e:  # noqa
        return "obscure"  # class kept out of the observable; recorded in replays


def impl_ctor_detail(c):
    from shexer.shaper import Shaper
    try:
        Shaper(**kwargs_of(c))
        return "accept"
    except BaseException as e:  # noqa
        return "%s: %s" % (type(e).__name__, str(e)[:200])


def row_of(c):
    (srcs, tgts, acm, fmt, compr, ex, dis_or, red_or) = c
    b = lambda x: "1" if x else "0"
    o = lambda x: "N" if x is None else "S" + x
    return [b(x) for x in srcs] + [b(x) for x in tgts] + [b(acm), fmt, o(compr), o(ex), b(dis_or), b(red_or)]


# ---- the property's reference predicate (independent oracle) ----
def spec_ctor(c):
    (srcs, tgts, acm, fmt, compr, ex, dis_or, red_or) = c
    if sum(1 for x in srcs if x) != 1:          # present = not None, whatever the value (2 = present and falsy)
        return False
    if acm:
        if tgts[0] or tgts[1] or (tgts[2] and tgts[3]):
            return False
    elif sum(1 for x in tgts if x) != 1:
        return False
    if fmt not in ("nt", "tsv_spo", "n3", "turtle", "xml", "json-ld", "turtle_iter"):
        return False
    if compr not in (None, "gz", "zip", "xz"):
        return False
    if compr is not None and (srcs[3] or srcs[4] or srcs[5]):
        return False
    if ex not in (None, "all", "cons", "shape"):
        return False
    if dis_or and red_or:
        return False
    return True


def root_cause(c):
    """known-finding root causes (only meaningful for spec-valid configurations)"""
    (srcs, tgts, acm, fmt, compr, ex, dis_or, red_or) = c
    if not (tgts[2] or tgts[3]):
        return None
    if srcs[5] or srcs[6]:
        return None
    if srcs[1] or srcs[3] or srcs[4]:
        return "C20-F1"   # shape map with a source the shape-map factory does not forward
    if fmt in ("tsv_spo", "turtle_iter"):
        return "C20-F2"   # shape map: rdflib does not know the streaming formats
    if srcs[0] and compr is not None:
        return "C20-F3"   # shape map: compressed file parsed without decompression
    return None


def enumerate_configs(tier, rnd):
    cfgs = []
    seen = set()

    def add(c):
        if c not in seen:
            seen.add(c)
            cfgs.append(c)
    bools = (False, True)
    # (A) every presence/absence pattern of the 7 sources x 4 targets x all_classes, defaults elsewhere
    for srcs in itertools.product(bools, repeat=7):
        for tgts in itertools.product(bools, repeat=4):
            for acm in bools:
                add((srcs, tgts, acm, "nt", None, None, True, False))
    # (B) every single source x every target pattern with <=2 targets x all enum combinations
    singles = [tuple(i == j for j in range(7)) for i in range(7)]
    tpat = [t for t in itertools.product(bools, repeat=4) if sum(t) <= (2 if tier == "thorough" else 1)]
    stride = 1 if tier == "thorough" else 5
    k = 0
    for srcs in singles:
        for tgts in tpat:
            for acm in bools:
                for fmt in FORMATS:
                    for compr in COMPR:
                        for ex in EXAMPLES:
                            for dis_or, red_or in itertools.product(bools, repeat=2):
                                k += 1
                                if k % stride == 0 or (tgts[2] or tgts[3]):
                                    add((srcs, tgts, acm, fmt, compr, ex, dis_or, red_or))
    # (C) random points of the full product
    for _ in range(20000 if tier == "thorough" else 3000):
        add((tuple(rnd.random() < 0.25 for _ in range(7)), tuple(rnd.random() < 0.3 for _ in range(4)),
             rnd.random() < 0.5, rnd.choice(FORMATS), rnd.choice(COMPR), rnd.choice(EXAMPLES),
             rnd.random() < 0.5, rnd.random() < 0.5))
    # (D) arguments that are present but falsy ("", [], an empty rdflib graph): present is "not None".  One present
    # argument of a base configuration becomes falsy, or one absent argument becomes present-and-falsy (which makes
    # the configuration contradictory).  shape_map_file = "" is left out of the accepted side: the factory opens it.
    base = [c for c in cfgs[:4096:7]] + [c for c in cfgs if spec_ctor(c)][:400]
    for c in base:
        (srcs, tgts, acm, fmt, compr, ex, dis_or, red_or) = c
        for i in range(7):
            # with a shape map the constructor LOADS the source (rdflib): an unreadable "" is an I/O matter, not a
            # configuration one -- falsy sources only where the constructor does not open them
            if (srcs[i] or sum(1 for x in srcs if x) == 1) and not (tgts[2] or tgts[3]):
                s2 = tuple(2 if j == i else x for j, x in enumerate(srcs))
                add((s2, tgts, acm, fmt, compr, ex, dis_or, red_or))
        for i in range(4):
            if i != 2 and (tgts[i] or sum(1 for x in tgts if x) == 1):
                t2 = tuple(2 if j == i else x for j, x in enumerate(tgts))
                add((srcs, t2, acm, fmt, compr, ex, dis_or, red_or))
    return cfgs


THRESHOLDS = [(-1, 100, -0.01), (0, 1, 0), (1, 1, 1), (101, 100, 1.01), (1, 2, 0.5), (1, 3, 1.0 / 3),
              (-1, 1, -1), (2, 1, 2)]
OUT_FORMATS = ["ShEx", "Shacl", "bogus", "shex"]


def call_cases():
    cs = []
    for (n, d, t) in THRESHOLDS:
        for fmt in OUT_FORMATS:
            for so in (False, True):
                for of in (False, True):
                    cs.append((so, of, fmt, n, d, t))
    return cs


def impl_call(k):
    from shexer.shaper import Shaper
    (so, of, fmt, n, d, t) = k
    sh = Shaper(raw_graph=_FILES["nt"][1], all_classes_mode=True)
    try:
        sh.shex_graph(string_output=so, output_file=os.path.join(D, "out_%d.txt" % os.getpid()) if of else None,
                      output_format=fmt, acceptance_threshold=t)
        return "accept"
    except ValueError:
        return "ValueError"
    except BaseException:  # noqa
        return "obscure"


def impl_call_after_valid(k):
    """the same call as the SECOND call on a Shaper whose first call was valid: the call-time checks
    must not depend on cached state"""
    from shexer.shaper import Shaper
    (so, of, fmt, n, d, t) = k
    sh = Shaper(raw_graph=_FILES["nt"][1], all_classes_mode=True)
    sh.shex_graph(string_output=True)
    try:
        sh.shex_graph(string_output=so, output_file=os.path.join(D, "out_%d.txt" % os.getpid()) if of else None,
                      output_format=fmt, acceptance_threshold=t)
        return "accept"
    except ValueError:
        return "ValueError"
    except BaseException:  # noqa
        return "obscure"


def impl_call_unreadable(k):
    """an INVALID call on a Shaper whose graph file does not exist: the call-time checks come first, so the answer is
    ValueError and not the later, obscurer failure of the extraction (FileNotFoundError)"""
    from shexer.shaper import Shaper
    (so, of, fmt, n, d, t) = k
    sh = Shaper(graph_file_input=os.path.join(D, "no_such_graph.nt"), all_classes_mode=True)
    try:
        sh.shex_graph(string_output=so, output_file=os.path.join(D, "out_%d.txt" % os.getpid()) if of else None,
                      output_format=fmt, acceptance_threshold=t)
        return "accept"
    except ValueError:
        return "ValueError"
    except BaseException as e:  # noqa
        return "obscure:" + type(e).__name__


def spec_call(k):
    (so, of, fmt, n, d, t) = k
    return (so or of) and fmt in ("ShEx", "Shacl") and 0 <= n <= d


def run(tier, seed, replay=None):
    run = core.Run("C20", tier, seed)
    bs = core.build("C20")
    proofs_ok = core.proof_gate(run, bs)
    rnd = random.Random(seed)
    _prepare_files()
    findings = {f["id"]: f for f in core.load_findings("C20")}

    if replay:
        import json
        with open(replay) as f:
            rp = json.load(f)
        cfgs = [tuple(tuple(x) if isinstance(x, list) else x for x in rp["config"])] if "config" in rp else []
    else:
        cfgs = enumerate_configs(tier, rnd)
    impl = core.pool_map(impl_ctor, cfgs, chunksize=256)
    model = None
    if bs.model_ok:
        mb = core.ModelBin()
        model = [r[0] for r in mb.call("c20_ctor", [row_of(c) for c in cfgs])]
    else:
        run.notes.append("model binary unavailable: " + bs.model_log[-800:])

    spec_fail = []
    corr_fail = []
    dist = {"accept": 0, "ValueError": 0, "obscure": 0}
    known_hits = {}
    nontrivial = 0
    for i, c in enumerate(cfgs):
        dist[impl[i]] += 1
        want = "accept" if spec_ctor(c) else "ValueError"
        if sum(c[0]) == 1 and (sum(c[1]) >= 1 or c[2]):
            nontrivial += 1
        if impl[i] != want:
            # an invalid configuration answered with a non-ValueError exception by the same
            # shape-map stage has the same root cause (the stage runs before the parser's own check)
            rc = root_cause(c) if (want == "accept" or impl[i] == "obscure") else None
            if rc is not None and rc in findings and findings[rc].get("status") == "known":
                known_hits[rc] = known_hits.get(rc, 0) + 1
            else:
                spec_fail.append(i)
        if model is not None and model[i] != impl[i]:
            corr_fail.append(i)

    # call-time checks
    ccs = call_cases() if not replay else []
    cimpl = [impl_call(k) for k in ccs]
    cmodel = None
    if bs.model_ok and ccs:
        b = lambda x: "1" if x else "0"
        cmodel = [r[0] for r in mb.call("c20_call", [[b(k[0]), b(k[1]), "0", k[2], str(k[3]), str(k[4])] for k in ccs])]
    cimpl2 = [impl_call_after_valid(k) for k in ccs]
    call_spec_fail = [i for i, k in enumerate(ccs) if cimpl[i] != ("accept" if spec_call(k) else "ValueError")]
    call2_spec_fail = [i for i, k in enumerate(ccs) if cimpl2[i] != ("accept" if spec_call(k) else "ValueError")]
    for i in call2_spec_fail[:5]:
        run.violation("shex_graph call-time check, as second call on a Shaper, disagrees with the reference predicate",
                      {"call": ccs[i], "history": "shex_graph(string_output=True) then this call", "impl": cimpl2[i],
                       "spec_valid": spec_call(ccs[i])})
    call_corr_fail = [i for i in range(len(ccs)) if cmodel is not None and cmodel[i] != cimpl[i]]
    for i, k in enumerate(ccs):
        if not spec_call(k):
            got = impl_call_unreadable(k)
            if got != "ValueError":
                run.violation("an invalid shex_graph call is deferred to a later failure when the graph cannot be read",
                              {"call": k, "history": "Shaper(graph_file_input=<missing file>, all_classes_mode=True) "
                                                     "then this call", "impl": got, "spec_valid": False})
                break

    # cross-check a sample of the binary's answers by vm_compute
    vm_n = 0
    if bs.model_ok and not replay:
        idx = rnd.sample(range(len(cfgs)), min(len(cfgs), 4000 if tier == "thorough" else 1500))
        cases = [("c20_ctor", [row_of(cfgs[i]) for i in idx[k:k + 50]], [[model[i]] for i in idx[k:k + 50]])
                 for k in range(0, len(idx), 50)]
        vm_n, mism, log = core.vm_crosscheck(cases, "c20", per_file=10)
        vm_n = len(idx)
        if mism:
            run.internal_errors.append("extracted binary and vm_compute disagree (C20): %s %s" % (mism[:5], log[-300:]))
        mb.close()

    # known findings: replay pinned reproducers
    for fid, f in findings.items():
        if f.get("status") != "known":
            continue
        c = tuple(tuple(x) if isinstance(x, list) else x for x in f["reproducer"]["config"])
        got = impl_ctor(c)
        if got != "accept" and spec_ctor(c):
            run.known_finding(fid, "%s -> constructor answers %s" % (f["what"], impl_ctor_detail(c)[:120]))
        else:
            run.notes.append("finding %s no longer reproduces (impl answers %s)" % (fid, got))

    for i in spec_fail[:5]:
        run.violation("constructor disagrees with the reference predicate",
                      {"config": cfgs[i], "kwargs": {k: str(v)[:80] for k, v in kwargs_of(cfgs[i]).items()},
                       "impl": impl_ctor_detail(cfgs[i]), "spec_valid": spec_ctor(cfgs[i]),
                       "model": model[i] if model else None})
    for i in call_spec_fail[:5]:
        run.violation("shex_graph call-time check disagrees with the reference predicate",
                      {"call": ccs[i], "impl": cimpl[i], "spec_valid": spec_call(ccs[i])})
    if not spec_fail and not call_spec_fail and not call2_spec_fail:
        if corr_fail or call_corr_fail:
            i = corr_fail[0] if corr_fail else None
            run.violation("correspondence Model.Config.ctor/call vs shexer.shaper no longer checks",
                          {"broken": "correspondence c20_ctor/c20_call",
                           "first_case": cfgs[i] if i is not None else ccs[call_corr_fail[0]],
                           "impl": impl[i] if i is not None else cimpl[call_corr_fail[0]],
                           "model": model[i] if i is not None else cmodel[call_corr_fail[0]],
                           "n_disagreements": len(corr_fail) + len(call_corr_fail)}, failing_input=False)
        elif not proofs_ok:
            run.violation("proof obligations of C20 no longer check",
                          {"broken": "theorems C20_ctor_iff / C20_ctor_accept_sound / C20_call_iff (Props/C20.v)",
                           "log": run.notes[-1] if run.notes else ""}, failing_input=False)
        elif not bs.model_ok:
            run.violation("model no longer builds", {"broken": "Model/Entry extraction", "log": bs.model_log[-1500:]},
                          failing_input=False)

    run.coverage.update({
        "evaluations": len(cfgs) + 2 * len(ccs),
        "distinct_nontrivial": nontrivial + len(ccs),
        "rule": "constructor: every presence pattern of 7 sources x 4 targets x all_classes_mode (8192) with default "
                "enums; every single source x target pattern x {8 formats x 5 compressions x 5 examples modes x 4 "
                "or-flag pairs} (stride %s outside shape maps); random points of the full product; shex_graph: 8 "
                "thresholds x 4 formats x 4 sink combinations.  Distinct by construction (set); non-trivial = exactly "
                "one source and some target specification (passes the first check)" % ("1" if tier == "thorough" else "5"),
        "exhaustive": False,
        "outcome_distribution": dist,
        "known_finding_hits": known_hits,
        "vm_compute_crosschecked": vm_n,
        "disagreements_model_vs_impl": len(corr_fail) + len(call_corr_fail),
        "samples": [{"config": cfgs[i], "impl": impl[i], "model": model[i] if model else None}
                    for i in ([0, len(cfgs) // 3, len(cfgs) // 2, len(cfgs) - 1] if cfgs else [])] +
                   [{"call": ccs[i], "impl": cimpl[i]} for i in ([0, 5, 40] if ccs else [])],
    })
    run.assumptions = ["rdflib's behaviour at RdflibSgraph construction (eager parse, ValueError without a source) is "
                       "modelled as observed, not verified",
                       "dummy argument values (tiny graph in each format, file:// URLs, unreachable endpoint URL) stand "
                       "for all values of the same presence pattern"]
    return run.finish(bs)
