"""C10 -- shapes are computed from exactly the nodes the user selected.

Theorems: Props/C10.v.  Correspondence: Model.Selectors.run (extracted binary, vm_compute on a
sample) against the real instance tracker reached through Shaper(...)._launch_instance_tracker()
on generated graphs x target specifications.  Property oracle (independent of the model, written
from Spec/Selectors.v): the selectors are evaluated directly on the abstract triples; compared
with the real instances dictionary, with the shape labels / '# N instances.' headers of
shex_graph and with every printed figure recomputed from the oracle's node sets.
"""
import collections
import json
import os
import random
import re
import signal
import warnings

from vp import core

RT = "http://www.w3.org/1999/02/22-rdf-syntax-ns#type"
XSD = "http://www.w3.org/2001/XMLSchema#"
SHAPES_NS = "http://weso.es/shapes/"
PRIORITY_PREFIXES = ["", "weso-s", "shapes", "w-shapes"]
P31 = "http://www.wikidata.org/prop/direct/P31"
KIND = "http://e/kind"
NSPOOL = [("http://e/", "ex"), ("http://f/", "f"), ("http://www.wikidata.org/entity/", "wd"),
          ("http://www.wikidata.org/prop/direct/", "wdt"), ("http://sh/", "sh"), (XSD, "xsd"),
          ("http://www.w3.org/1999/02/22-rdf-syntax-ns#", "rdf")]
D = os.path.join(core.WORK, "c10")

FINDINGS = {"nonIri_answer": "C10-F1", "same_shape_name": "C10-F5", "tau_literal": "C10-F6",
            "repeated_statement": "C10-F7", "at_in_label": "C10-F8", "prefix_in_local": "C10-F9",
            "sparql_kw_in_query": "C10-F10"}
# which root causes may explain which kind of oracle failure
EXPLAINS = {"raised": ["at_in_label", "tau_literal", "sparql_kw_in_query"],
            "instances": ["nonIri_answer", "prefix_in_local", "at_in_label", "sparql_kw_in_query"],
            "text-raised": ["nonIri_answer", "tau_literal"],
            "repeated": ["repeated_statement"],
            "text": ["nonIri_answer", "repeated_statement", "same_shape_name", "prefix_in_local", "at_in_label",
                     "sparql_kw_in_query"]}
# IRIs holding the keyword of the SPARQL selectors (a predicate, a node, a class): legal everywhere
KW_PROPS = ["http://e/SPARQLstatus", "http://e/pSPARQL"]
KW_NODES = ["http://e/nSPARQL", "http://e/SPARQLn7"]
KW_CLASS = "http://e/SPARQLThing"


# ---------------------------------------------------------------------------------------------
# abstract syntax (mirrors Spec/Selectors.v) and its concrete rendering
# ---------------------------------------------------------------------------------------------
# ref    = ["F", iri] | ["A", iri] | ["P", prefix, local]
# fterm  = ["W"] | ["a"] | ref
# sel    = ["node", ref] | ["fs", p, o] | ["fo", s, p] | ["sq", text, struct]
# item   = [sel, label_ref]
# node   = ["I", iri] | ["B", "_:x"];  obj = node | ["L", lex, datatype]

def show_ref(r):
    if r[0] == "F":
        return r[1]
    if r[0] == "A":
        return "<" + r[1] + ">"
    return r[1] + ":" + r[2]


def show_fterm(f):
    return "_" if f[0] == "W" else ("a" if f[0] == "a" else show_ref(f))


def show_selector(s, lay=None):
    lay = lay or {}
    focus = lay.get("focus", "FOCUS")
    gap = lay.get("gap", " ")
    pad = lay.get("pad", "")
    if s[0] == "node":
        return show_ref(s[1])
    if s[0] == "fs":
        return "{" + pad + focus + gap + show_fterm(s[1]) + gap + show_fterm(s[2]) + pad + "}"
    if s[0] == "fo":
        return "{" + pad + show_fterm(s[1]) + gap + show_fterm(s[2]) + gap + focus + pad + "}"
    q = lay.get("quote", "'")
    return "SPARQL" + lay.get("sgap", " ") + q + s[1] + q


def resolve(ns, r):
    if r[0] in ("F", "A"):
        return r[1]
    hits = [n for (n, p) in ns if p == r[1]]
    return hits[0] + r[2] if hits else None


def nt_term(x, explicit_string=False):
    if x[0] == "I":
        return "<%s>" % x[1]
    if x[0] == "B":
        return x[1]
    if x[2] == XSD + "string" and not (explicit_string and x[1].startswith("http://")):
        return '"%s"' % x[1]
    return '"%s"^^<%s>' % (x[1], x[2])


def nt_doc(G, explicit_string=False):
    """explicit_string: literals that look like IRIs are written "..."^^xsd:string (the same abstract triple)"""
    return "".join("%s <%s> %s .\n" % (nt_term(s), p, nt_term(o, explicit_string)) for (s, p, o) in G)


def tup(x):
    return tuple(tup(y) if isinstance(y, list) else y for y in x) if isinstance(x, (list, tuple)) else x


# ---------------------------------------------------------------------------------------------
# the property oracle: selectors evaluated directly on the abstract triples
# ---------------------------------------------------------------------------------------------

def dedup(l):
    seen = set()
    out = []
    for x in l:
        k = tup(x)
        if k not in seen:
            seen.add(k)
            out.append(x)
    return out


def term_matches(ns, f, x):
    if f[0] == "W":
        return True
    if f[0] == "a":
        return tup(x) == ("I", RT)
    i = resolve(ns, f)
    return i is not None and tup(x) == ("I", i)


def pred_matches(ns, f, p):
    if f[0] == "W":
        return False
    if f[0] == "a":
        return p == RT
    return resolve(ns, f) == p


def eval_bgp(ns, G, struct):
    """struct = [s, p, o, var, distinct] with s/p/o = ["v", name] | ["a"] | ref"""
    s_, p_, o_, var, distinct = struct
    rows = []
    for (s, p, o) in dedup(G):
        env = {}
        ok = True
        for pat, val in ((s_, s), (p_, ["I", p]), (o_, o)):
            if pat[0] == "v":
                if pat[1] in env and tup(env[pat[1]]) != tup(val):
                    ok = False
                env.setdefault(pat[1], val)
            elif pat[0] == "a":
                ok = ok and tup(val) == ("I", RT)
            else:
                ok = ok and tup(val) == ("I", resolve(ns, pat))
        if ok and var in env:
            rows.append(env[var])
    return dedup(rows) if distinct else rows


def selects(ns, G, sel, sparql_answers):
    if sel[0] == "node":
        i = resolve(ns, sel[1])
        return [["I", i]] if i is not None else []
    if sel[0] == "fs":
        return [s for (s, p, o) in dedup(G) if pred_matches(ns, sel[1], p) and term_matches(ns, sel[2], o)]
    if sel[0] == "fo":
        return [o for (s, p, o) in dedup(G) if term_matches(ns, sel[1], s) and pred_matches(ns, sel[2], p)]
    return sparql_answers.get(sel[1], [])


def denote(tg, G, sparql_answers):
    """{("C", class) | ("L", label): [objs]} -- with the multiplicity of the matches"""
    ns = tg["ns"]
    out = collections.OrderedDict()
    tau = resolve(ns, tg["tau"])
    if tg["all"] or tg["classes"] is not None:
        if tg["all"]:
            cls = [o[1] for (s, p, o) in G if p == tau and o[0] == "I"]
        else:
            cls = [c for c in (resolve(ns, r) for r in tg["classes"]) if c is not None]
        for c in dedup(cls):
            out[("C", c)] = [s for (s, p, o) in G if p == tau and tup(o) == ("I", c)]
    if tg["items"] is not None:
        for sel, lab in tg["items"]:
            l = resolve(ns, lab)
            if l is None:
                continue
            out.setdefault(("L", l), [])
            out[("L", l)] += selects(ns, G, sel, sparql_answers)
    return out


def key_of(S):
    return S[1] if S[0] == "C" else "<" + S[1] + ">"


def node_key(x):
    return x[1] if x[0] in ("I", "B") else None


def local_name(c):
    lp = c
    if "#" in lp and lp[-1] != "#":
        lp = lp[lp.rfind("#") + 1:]
    if "/" in lp:
        lp = lp[lp.rfind("/") + 1:] if lp[-1] != "/" else lp[lp[:-1].rfind("/") + 1:]
    return lp


def shape_iri(S):
    """the IRI under which the shape of S must be printed"""
    return SHAPES_NS + local_name(S[1]) if S[0] == "C" else S[1]


# ---------------------------------------------------------------------------------------------
# generators
# ---------------------------------------------------------------------------------------------

def mkref(r, iri, ns, allow_full, p_pref=0.45):
    # local names may carry ':' '.' '-' '%xx' (legal PN_LOCALs)
    cands = [(n, p) for (n, p) in ns if iri.startswith(n) and iri[len(n):] and not re.search(r"[/#]", iri[len(n):])]
    k = r.random()
    if cands and k < p_pref:
        n, p = cands[0]
        return ["P", p, iri[len(n):]]
    if allow_full and k > 0.75:
        return ["F", iri]
    return ["A", iri]


def gen_graph(r):
    typing = [RT] + [t for t in (KIND, P31) if r.random() < 0.45]
    pool = ["http://e/C0", "http://e/C1", "http://f/C2", "http://www.wikidata.org/entity/Q5", "http://e/voc#K",
            "http://e/K:1"]
    if r.random() < 0.04:
        pool.append("http://f/C0")          # same local name as http://e/C0
    classes = r.sample(pool, r.randint(1, min(4, len(pool))))
    nodes = [["I", "http://e/n%d" % i] for i in range(r.randint(2, 6))]
    if r.random() < 0.04:
        nodes.append(["I", "http://e/u@h"])     # an IRI with '@'
    if r.random() < 0.3:                        # punctuation in local names; tax / tax:9606 differ only after the ':'
        # a-ex:b repeats its own prefix when written ex:a-ex:b; every ':' does when the user takes the empty prefix
        nodes += r.sample([["I", "http://e/tax:9606"], ["I", "http://e/tax"], ["I", "http://e/a.b-c"],
                           ["I", "http://e/x%20y"], ["I", "http://e/n0:n1:n2"], ["I", "http://e/a-ex:b"]], r.randint(1, 3))
    nodes += [["B", "_:b%d" % i] for i in range(r.choice([0, 0, 1, 1, 2]))]
    props = ["http://e/p%d" % i for i in range(r.randint(1, 3))]
    if r.random() < 0.25:
        props += r.sample(["http://e/p:q", "http://e/p", "http://e/p.r-s"], r.randint(1, 2))
    if r.random() < 0.2:                        # names holding the keyword 'SPARQL' (and their twins without it)
        k = r.random()
        if k < 0.6:
            props += r.sample(KW_PROPS, r.randint(1, 2)) + (["http://e/status"] if r.random() < 0.5 else [])
        if k > 0.4:
            nodes += [["I", x] for x in r.sample(KW_NODES, r.randint(1, 2))] + ([["I", "http://e/n7"]] if r.random() < 0.5 else [])
        if r.random() < 0.4:
            classes.append(KW_CLASS)
            if r.random() < 0.5:
                classes.append("http://e/Thing")
    G = []
    for tp in typing:
        dens = r.choice([0.25, 0.4, 0.6])
        for n in nodes:
            for c in classes:
                if r.random() < dens:
                    G.append([n, tp, ["I", c]])
    for n in nodes:
        for p in props:
            for _ in range(r.choice([0, 0, 1, 1, 2, 3])):
                k = r.random()
                if k < 0.35:
                    o = ["L", "v%d" % r.randint(0, 9), r.choice([XSD + "string", XSD + "integer", "http://e/dt"])]
                elif k < 0.5:
                    o = ["I", "http://e/u%d" % r.randint(0, 3)]
                elif k < 0.55:
                    o = ["I", r.choice(classes)]
                else:
                    o = r.choice(nodes)
                G.append([n, p, o])
    if r.random() < 0.03:      # a literal under a typing property
        G.append([r.choice(nodes), r.choice(typing), ["L", "lit", XSD + "string"]])
    G = dedup(G)
    if r.random() < 0.03 and G:   # a repeated statement
        G.append(r.choice(G))
    r.shuffle(G)
    return G, typing, classes, nodes, props


SPARQL_KW = ["select", "SELECT", "Select"]


def _prefer_kw(r, pool):
    """half of the time, when the pool holds names with the keyword 'SPARQL', one of those"""
    kw = [x for x in pool if "SPARQL" in (x[1] if isinstance(x, list) else x)]
    return r.choice(kw) if kw and r.random() < 0.5 else r.choice(pool)


def gen_sparql(r, ns, G, typing, classes, nodes, props):
    def term(iri):
        t = mkref(r, iri, ns, False)
        # a SPARQL prefixed name cannot carry '@' in its local part: write such IRIs in brackets
        return ["A", iri] if (t[0] == "P" and not re.fullmatch(r"[A-Za-z0-9_]*", t[2])) else t
    k = r.random()
    v = r.choice(["x", "s", "node"])
    if k < 0.4:
        struct = [["v", v], ["a"] if r.random() < 0.5 else term(r.choice(typing)), term(_prefer_kw(r, classes)), v, False]
    elif k < 0.7:
        struct = [["v", v], term(_prefer_kw(r, props + typing)), ["v", "o"], v, r.random() < 0.5]
    elif k < 0.85:
        n = _prefer_kw(r, nodes)
        struct = [term(n[1]) if n[0] == "I" else ["v", "w"], term(_prefer_kw(r, props)), ["v", v], v, False]
    else:
        struct = [["v", "w"], term(_prefer_kw(r, props)), ["v", v], v, True]

    def show(t):
        return "?" + t[1] if t[0] == "v" else ("a" if t[0] == "a" else show_ref(t))
    text = "%s %s?%s where { %s %s %s }" % (r.choice(SPARQL_KW), "distinct " if struct[4] else "", v,
                                            show(struct[0]), show(struct[1]), show(struct[2]))
    return ["sq", text, struct]


def gen_selector(r, ns, G, typing, classes, nodes, props):
    k = r.random()
    iri_nodes = [n for n in nodes if n[0] == "I"]
    if k < 0.3:
        iri = r.choice(iri_nodes)[1] if r.random() < 0.9 else "http://e/absent"
        return ["node", mkref(r, iri, ns, False)]
    if k < 0.55:
        p = ["a"] if r.random() < 0.3 else mkref(r, r.choice(typing + props), ns, False)
        ko = r.random()
        o = ["W"] if ko < 0.35 else (["a"] if ko < 0.4 else mkref(r, r.choice(classes + [n[1] for n in iri_nodes]), ns, False))
        return ["fs", p, o]
    if k < 0.75:
        p = ["a"] if r.random() < 0.15 else mkref(r, r.choice(props + typing), ns, False)
        s = ["W"] if r.random() < 0.5 else mkref(r, r.choice(iri_nodes)[1], ns, False)
        return ["fo", s, p]
    return gen_sparql(r, ns, G, typing, classes, nodes, props)


def gen_target(r, G, typing, classes, nodes, props):
    ns = [list(x) for x in NSPOOL if x[0] == "http://e/" or r.random() < 0.7]
    if r.random() < 0.1:
        ns[0] = ["http://e/", ""]       # the user takes the empty prefix; the shapes namespace gets weso-s
    r.shuffle(ns)
    tau_iri = r.choice(typing) if r.random() < 0.85 else r.choice([RT, KIND, P31])
    tg = {"ns": ns, "tau": mkref(r, tau_iri, ns, True), "classes": None, "cls_src": "L", "all": False,
          "items": None, "fmt": "fsm", "sm_src": "raw"}
    mode = r.choices(["classes", "file", "all", "smap", "all+smap"], [22, 12, 14, 36, 16])[0]
    if mode in ("classes", "file"):
        sub = [c for c in classes if r.random() < 0.6] or [r.choice(classes)]
        if r.random() < 0.15:
            sub.append("http://e/Nothing")
        tg["classes"] = [mkref(r, c, ns, True, 0.4) for c in sub]
        tg["cls_src"] = "F" if mode == "file" else "L"
    if mode in ("all", "all+smap"):
        tg["all"] = True
    if mode in ("smap", "all+smap"):
        labels = ["http://sh/S%d" % i for i in range(3)] + ["http://e/Lab"]
        if r.random() < 0.03:
            labels.append("http://sh/a@b")      # '@' inside a label (the fixed syntax splits at the last '@')
        if r.random() < 0.06 and classes:
            labels.append(SHAPES_NS + local_name(r.choice(classes)))   # collides with the shape name of a class
        items = []
        for _ in range(r.choice([1, 1, 2, 2, 3, 4])):
            lab = r.choice(labels)
            lref = mkref(r, lab, ns, False, 0.12)
            items.append([gen_selector(r, ns, G, typing, classes, nodes, props), lref])
        tg["items"] = items
        tg["fmt"] = r.choice(["fsm", "fsm", "json"])
        tg["sm_src"] = r.choice(["raw", "raw", "file"])
    return tg


def add_class_named_literals(r, G, tg, classes, typing):
    """A literal is never a class: statements `<n> tau "http://e/C0"` whose object is a LITERAL spelled like a
    class IRI (plain / typed xsd:string, or xsd:anyURI) -- a requested class, a class that is not requested, and
    the same under a typing property that is not the instantiation property -- denote nothing.  Mostly added to
    documents read in target-classes mode (in all_classes_mode a literal object of tau is finding C10-F6).
    Returns the number of statements added."""
    share = 0.3 if tg["classes"] is not None else 0.03
    if r.random() >= share:
        return 0
    tau = resolve(tg["ns"], tg["tau"])
    requested = [c for c in (resolve(tg["ns"], x) for x in tg["classes"] or []) if c is not None]
    subjects = dedup([s for (s, _, _) in G]) or [["I", "http://e/n0"]]
    added = 0
    for _ in range(r.choice([1, 1, 2, 3])):
        k = r.random()
        if requested and k < 0.6:
            lex = r.choice(requested)
        elif k < 0.9:
            lex = r.choice([c for c in classes if c not in requested] or classes)
        else:
            lex = "http://e/Nothing"
        p = tau if r.random() < 0.8 else r.choice(typing)
        t = [r.choice(subjects), p, ["L", lex, XSD + r.choice(["string", "string", "anyURI"])]]
        if tup(t) not in {tup(x) for x in G}:
            G.insert(r.randint(0, len(G)), t)
            added += 1
    return added


def gen_layout(r, tg):
    """non-canonical but valid ways of writing the same fixed-syntax shape map"""
    if tg["items"] is None or r.random() < 0.55:
        return None
    lay = {"focus": r.choice(["FOCUS", "focus", "Focus"]), "gap": r.choice([" ", "  ", "   "]),
           "pad": r.choice(["", " "]), "quote": r.choice(["'", '"']), "sgap": r.choice([" ", "", "  "]),
           "at": r.choice(["@", " @ ", "@ "]), "comma_last": r.random() < 0.5, "commas": r.random() < 0.8,
           "indent": r.choice(["", "  ", "\t"]), "comment": r.random() < 0.5, "blank": r.random() < 0.5}
    return lay


MUTATIONS = ["drop_brace", "unknown_prefix_sel", "no_at", "two_at", "bare_label", "short_label", "unknown_prefix_label",
             "sparql_noquote", "sparql_twovars", "sparql_ask", "sparql_empty", "focus_two", "focus_none", "focus_wild_pred",
             "focus_two_tokens", "full_iri_sel", "unclosed_class", "empty_classes", "unknown_prefix_class",
             "at_in_iri", "all_and_classes", "nothing", "lit_focus_term", "label_unclosed", "label_unopened",
             "sel_unclosed", "focus_token_unopened"]


def gen_raw(r, G, typing, classes, nodes, props):
    """out-of-grammar inputs: only the correspondence (fault for fault) is checked on these"""
    ns = [list(x) for x in NSPOOL[:5]]
    m = r.choice(MUTATIONS)
    raw = {"ns": ns, "tau": RT, "classes": None, "cls_src": "L", "all": False, "pairs": None, "fmt": "fsm",
           "sm_src": "raw", "mutation": m, "lines": None}
    good = ["<%s>" % nodes[0][1], "<http://sh/S0>"]
    pairs = [list(good)] if r.random() < 0.5 else []
    bad = {
        "drop_brace": ["{FOCUS ex:p0 _", "<http://sh/S1>"],
        "unknown_prefix_sel": ["zz:n0", "<http://sh/S1>"],
        "bare_label": ["ex:n0", "Shape"],
        "short_label": ["ex:n0", "S"],
        "unknown_prefix_label": ["ex:n0", "zz:S"],
        "sparql_noquote": ["SPARQL select ?x where {?x a ex:C0}", "<http://sh/S1>"],
        "sparql_twovars": ["SPARQL 'select ?x ?y where {?x ex:p0 ?y}'", "<http://sh/S1>"],
        "sparql_ask": ["SPARQL 'ask {?x ex:p0 ?y}'", "<http://sh/S1>"],
        "sparql_empty": ["SPARQL", "<http://sh/S1>"],
        "focus_two": ["{FOCUS ex:p0 FOCUS}", "<http://sh/S1>"],
        "focus_none": ["{_ ex:p0 _}", "<http://sh/S1>"],
        "focus_wild_pred": ["{FOCUS _ _}", "<http://sh/S1>"],
        "focus_two_tokens": ["{FOCUS ex:p0}", "<http://sh/S1>"],
        "full_iri_sel": ["http://e/n0", "<http://sh/S1>"],
        "at_in_iri": ["<http://e/u@h>", "<http://sh/S1>"],
        "lit_focus_term": ['{FOCUS ex:p0 "v1"}', "<http://sh/S1>"],
        "label_unclosed": ["ex:n0", "<http://sh/S1"],
        "label_unopened": ["ex:n0", "sh:S1>"],
        "sel_unclosed": ["<http://e/n0", "<http://sh/S1>"],
        "focus_token_unopened": ["{FOCUS ex:p0 http://e/n0>}", "<http://sh/S1>"],
    }
    if m in bad:
        pairs.insert(r.randint(0, len(pairs)), bad[m])
        raw["pairs"] = pairs
        raw["fmt"] = "json" if (r.random() < 0.4 and m != "at_in_iri") else "fsm"
    elif m == "no_at":
        raw["lines"] = ["<%s> <http://sh/S0>" % nodes[0][1]]
    elif m == "two_at":
        raw["lines"] = ["<%s>@<http://sh/S0>@<http://sh/S1>" % nodes[0][1]]
    elif m == "unclosed_class":
        raw["classes"] = ["<" + classes[0]]
        raw["cls_src"] = r.choice(["L", "F"])
    elif m == "empty_classes":
        raw["classes"] = []
        raw["cls_src"] = r.choice(["L", "F"])
    elif m == "unknown_prefix_class":
        raw["classes"] = ["zz:C0", classes[0]]
    elif m == "all_and_classes":
        raw["classes"] = [classes[0]]
        raw["all"] = True
    elif m == "nothing":
        pass
    if r.random() < 0.2 and raw["pairs"] is not None and m != "all_and_classes":
        raw["all"] = True
    return raw


# ---------------------------------------------------------------------------------------------
# a case = what is handed to the real code (+ the abstract specification when there is one)
# ---------------------------------------------------------------------------------------------

def render_fixed(items, lay):
    if lay is None:
        return ",\n".join(show_selector(s) + "@" + show_ref(l) for s, l in items)
    lines = []
    for i, (s, l) in enumerate(items):
        if lay["comment"]:
            lines.append("# item %d" % i)
        if lay["blank"]:
            lines.append("   ")
        last = i == len(items) - 1
        comma = "," if (lay["commas"] and (not last or lay["comma_last"])) else ""
        lines.append(lay["indent"] + show_selector(s, lay) + lay["at"] + show_ref(l) + comma + ("  " if lay["blank"] else ""))
    return "\n".join(lines) + ("\n" if lay["blank"] else "")


def concrete(case):
    """the strings handed to Shaper: tau, classes (list) / class file content, shape map text or pairs"""
    if case["kind"] == "ast":
        tg = case["tg"]
        c = {"ns": tg["ns"], "tau": show_ref(tg["tau"]), "classes": None, "cls_src": tg["cls_src"], "all": tg["all"],
             "fmt": tg["fmt"], "sm_src": tg["sm_src"], "smtext": None, "pairs": None}
        if tg["classes"] is not None:
            c["classes"] = [show_ref(x) for x in tg["classes"]]
        if tg["items"] is not None:
            if tg["fmt"] == "fsm":
                c["smtext"] = render_fixed(tg["items"], case.get("layout"))
            else:
                lay = case.get("layout")
                c["pairs"] = [[show_selector(s, lay), show_ref(l)] for s, l in tg["items"]]
        return c
    raw = case["raw"]
    c = {"ns": raw["ns"], "tau": raw["tau"], "classes": raw["classes"], "cls_src": raw["cls_src"], "all": raw["all"],
         "fmt": raw["fmt"], "sm_src": raw["sm_src"], "smtext": None, "pairs": None}
    if raw["lines"] is not None:
        c["smtext"] = "\n".join(raw["lines"])
    elif raw["pairs"] is not None:
        if raw["fmt"] == "fsm":
            c["smtext"] = ",\n".join(a + "@" + b for a, b in raw["pairs"])
        else:
            c["pairs"] = raw["pairs"]
    return c


_KW_ONCE = None


def sparql_kw_once():
    """does NodeSelectorParser._parse_sparql_expression remove the leading keyword only (replace(kw, '', 1))?
    Read from the Gen/Consts.v that core.build has just regenerated from the code under test (None: flag missing)."""
    global _KW_ONCE
    if _KW_ONCE is None:
        try:
            with open(os.path.join(core.ROCQ, "theories", "Gen", "Consts.v")) as f:
                m = re.search(r"^Definition c_sel_sparql_strip_once : bool := (true|false)\.$", f.read(), re.M)
        except OSError:
            m = None
        _KW_ONCE = (m.group(1) == "true") if m else "missing"
    return None if _KW_ONCE == "missing" else _KW_ONCE


def sparql_bodies(c):
    """query texts the parser will hand to prepareQuery (glue: mirrors replace/strip/[1:-1])"""
    sels = []
    if c["pairs"] is not None:
        sels = [a for a, _ in c["pairs"]]
    elif c["smtext"] is not None:
        for line in c["smtext"].split("\n"):
            line = line.strip()
            if not line or line[0] == "#":
                continue
            if line[-1] == ",":
                line = line[:-1]
            sels.append(line.rsplit("@", 1)[0])
    out = []
    for s in sels:
        s = s.strip()
        if s.startswith("SPARQL"):
            b = (s.replace("SPARQL", "", 1) if sparql_kw_once() else s.replace("SPARQL", "")).strip()
            if len(b) >= 1 and b[0] in "'\"" and b[-1] in "'\"":
                out.append(b[1:-1])
    return out


# ---------------------------------------------------------------------------------------------
# the real code
# ---------------------------------------------------------------------------------------------

class _Timeout(BaseException):
    pass


def _alarm(signum, frame):
    raise _Timeout()


def _abs_term(t, back=None):
    import rdflib
    if isinstance(t, rdflib.URIRef):
        return ("I", str(t))
    if isinstance(t, rdflib.BNode):
        return ("B", back.get(str(t), "?" + str(t)) if back is not None else str(t))
    if isinstance(t, rdflib.Literal):
        return ("L", str(t), str(t.datatype) if t.datatype is not None else XSD + "string")
    return ("?", str(t))


def _colors(triples):
    """colour refinement of the blank nodes of a list of abstract triples"""
    bn = sorted({x[1] for t in triples for x in (t[0], t[2]) if x[0] == "B"})
    col = {b: 0 for b in bn}
    for _ in range(4):
        sig = {b: [] for b in bn}
        for (s, p, o) in triples:
            if s[0] == "B":
                sig[s[1]].append(("s", p, ("B", col[o[1]]) if o[0] == "B" else o))
            if o[0] == "B":
                sig[o[1]].append(("o", p, ("B", col[s[1]]) if s[0] == "B" else s))
        keys = {b: repr(sorted(map(repr, sig[b]))) for b in bn}
        order = {k: i for i, k in enumerate(sorted(set(keys.values())))}
        col = {b: order[keys[b]] for b in bn}
    return col


def bnode_map(rg, G):
    """rdflib blank-node id -> label of the document, recovered structurally"""
    impl = [(_abs_term(s), str(p), _abs_term(o)) for s, p, o in rg]
    mine = list(dict.fromkeys((tup(s), p, tup(o)) for s, p, o in G))   # the rdflib graph holds each statement once
    ci, cm = _colors(impl), _colors(mine)
    by = collections.defaultdict(list)
    for b, c in sorted(cm.items()):
        by[c].append(b)
    back = {}
    for b, c in sorted(ci.items()):
        if by[c]:
            back[b] = by[c].pop(0)
    return back


def impl_case(case):
    """runs the real code on one case; returns a JSON-able observation"""
    from shexer.shaper import Shaper
    from shexer.consts import MIXED_INSTANCES, JSON as SM_JSON, FIXED_SHAPE_MAP
    import shexer.core.instances.abstract_instance_tracker as ait
    from rdflib.plugins import sparql as rsparql
    warnings.filterwarnings("ignore")
    os.makedirs(D, exist_ok=True)
    c = concrete(case)
    G = case["graph"]
    nt = nt_doc(G, bool(case.get("nt_explicit_string")))
    obs = {"dis0": ait._TRACKERS_DISAM_COUNT, "bn": {}, "wf": {}, "ans": {}, "monitor": []}
    tmp = []
    kw = {"raw_graph": nt, "namespaces_dict": {n: p for n, p in c["ns"]}, "instantiation_property": c["tau"],
          "instances_report_mode": MIXED_INSTANCES}
    base = os.path.join(D, "f_%d_%d" % (os.getpid(), case["idx"]))
    if c["classes"] is not None:
        if c["cls_src"] == "F":
            with open(base + "_tc.txt", "w") as f:
                f.write("\n".join(c["classes"]))
            tmp.append(base + "_tc.txt")
            kw["file_target_classes"] = base + "_tc.txt"
        else:
            kw["target_classes"] = list(c["classes"])
    if c["all"]:
        kw["all_classes_mode"] = True
    content = None
    if c["pairs"] is not None:
        content = json.dumps([{"nodeSelector": a, "shapeLabel": b} for a, b in c["pairs"]])
        kw["shape_map_format"] = SM_JSON
    elif c["smtext"] is not None:
        content = c["smtext"]
        kw["shape_map_format"] = FIXED_SHAPE_MAP
    if content is not None:
        if c["sm_src"] == "file":
            with open(base + "_sm.txt", "w") as f:
                f.write(content)
            tmp.append(base + "_sm.txt")
            kw["shape_map_file"] = base + "_sm.txt"
        else:
            kw["shape_map_raw"] = content
    # prepareQuery's verdict on every SPARQL body, independently of the constructor
    pfx = {p: n for n, p in c["ns"]}
    free = [p for p in PRIORITY_PREFIXES if p not in [q for _, q in c["ns"]]]
    pfx_all = {}
    for n, p in c["ns"] + [[SHAPES_NS, free[0] if free else "rnd"]]:
        pfx_all.setdefault(p, n)
        pfx_all[p] = n
    for q in sparql_bodies(c):
        try:
            rsparql.prepareQuery(q, initNs=pfx_all)
            obs["wf"][q] = True
        except BaseException:
            obs["wf"][q] = False
    old = signal.signal(signal.SIGALRM, _alarm)
    signal.setitimer(signal.ITIMER_REAL, 20)
    try:
        try:
            sh = Shaper(**kw)
        except _Timeout:
            obs["dict"] = ["err", "ctor", "Timeout"]
            return obs
        except BaseException as e:  # noqa
            obs["dict"] = ["err", "ctor", type(e).__name__]
            obs["detail"] = str(e)[:160]
            return obs
        # the rdflib graph the selectors are evaluated on: blank-node ids, SPARQL answers
        rg = None
        if sh._built_shape_map is not None:
            for it in sh._built_shape_map._items:
                if it.node_selector is not None:
                    rg = it.node_selector.sgraph._rdflib_graph
                    break
        if rg is not None:
            back = bnode_map(rg, G)
            obs["bn"] = {v: k for k, v in back.items()}
            got = sorted({(_abs_term(s, back), str(p), _abs_term(o, back)) for s, p, o in rg})
            want = sorted({(tup(s), p, tup(o)) for s, p, o in G})
            if got != want:
                obs["monitor"].append("rdflib graph differs from the abstract triples")
            nsstr = "".join("PREFIX %s: <%s>\n" % (p, n) for p, n in pfx_all.items())
            for q, ok in obs["wf"].items():
                if ok:
                    try:
                        obs["ans"][q] = [list(_abs_term(row[0], back)) for row in rg.query(nsstr + q)]
                    except BaseException as e:  # noqa
                        obs["ans"][q] = []
                        obs["monitor"].append("rdflib could not evaluate %r: %s" % (q, type(e).__name__))
        obs["dis0"] = ait._TRACKERS_DISAM_COUNT
        try:
            sh._launch_instance_tracker()
            obs["dict"] = ["ok", [[k, list(v)] for k, v in sh._target_classes_dict.items()]]
        except _Timeout:
            obs["dict"] = ["err", "track", "Timeout"]
            return obs
        except BaseException as e:  # noqa
            obs["dict"] = ["err", "track", type(e).__name__]
            obs["detail"] = str(e)[:160]
            return obs
        # text level: a fresh Shaper, every shape kept
        try:
            kw2 = dict(kw)
            kw2["remove_empty_shapes"] = False
            obs["text"] = Shaper(**kw2).shex_graph(string_output=True)
        except _Timeout:
            obs["text_err"] = "Timeout"
        except BaseException as e:  # noqa
            obs["text_err"] = "%s: %s" % (type(e).__name__, str(e)[:120])
        return obs
    finally:
        signal.setitimer(signal.ITIMER_REAL, 0)
        signal.signal(signal.SIGALRM, old)
        for p in tmp:
            try:
                os.remove(p)
            except OSError:
                pass


# ---------------------------------------------------------------------------------------------
# the model
# ---------------------------------------------------------------------------------------------

def ref_fields(r):
    return [r[0], r[1], r[2] if len(r) > 2 else ""]


def ft_fields(f):
    return [f[0], "", ""] if f[0] in ("W", "a") else ref_fields(f)


def common_rows(case, obs):
    rows = []
    c = concrete(case)
    for n, p in c["ns"]:
        rows.append(["ns", n, p])
    for (s, p, o) in case["graph"]:
        rows.append(["t", s[0], s[1], p, o[0], o[1], o[2] if len(o) > 2 else ""])
    for lab, rid in sorted(obs["bn"].items()):
        rows.append(["bn", lab, rid])
    for q, ok in obs["wf"].items():
        rows.append(["wf", q, "1" if ok else "0"])
    for q, ans in obs["ans"].items():
        for x in ans:
            rows.append(["ans", q, x[0], x[1], x[2] if len(x) > 2 else ""])
    return rows


def raw_table(case, obs):
    c = concrete(case)
    cmode = "N" if c["classes"] is None else c["cls_src"]
    fmt = "N" if (c["smtext"] is None and c["pairs"] is None) else ("json" if c["pairs"] is not None else "fsm")
    rows = [["cfg", c["tau"], "1" if c["all"] else "0", cmode, fmt, str(obs["dis0"])]]
    if c["classes"] is not None:
        if c["cls_src"] == "F":
            rows.append(["clfile", "\n".join(c["classes"])])
        else:
            rows += [["cl", x] for x in c["classes"]]
    if c["smtext"] is not None:
        rows.append(["smraw", c["smtext"]])
    if c["pairs"] is not None:
        rows += [["smjson", a, b] for a, b in c["pairs"]]
    return rows + common_rows(case, obs)


def ast_table(case, obs):
    tg = case["tg"]
    cmode = "N" if tg["classes"] is None else tg["cls_src"]
    fmt = "N" if tg["items"] is None else tg["fmt"]
    rows = [["cfg"] + ref_fields(tg["tau"]) + ["1" if tg["all"] else "0", cmode, fmt, str(obs["dis0"])]]
    for r in tg["classes"] or []:
        rows.append(["cl"] + ref_fields(r))
    for sel, lab in tg["items"] or []:
        if sel[0] == "node":
            f = ["node"] + ref_fields(sel[1]) + ["", "", "", ""]
        elif sel[0] in ("fs", "fo"):
            f = [sel[0]] + ft_fields(sel[1]) + ft_fields(sel[2]) + [""]
        else:
            f = ["sq", "", "", "", "", "", "", sel[1]]
        rows.append(["it"] + f + ref_fields(lab))
    return rows + common_rows(case, obs)


def parse_outcome(rows):
    rows = [r for r in rows if r and r[0] in ("ok", "i", "err")]
    if not rows:
        return ["?"]
    if rows[0][0] == "err":
        return ["err", rows[0][1], rows[0][2]]
    return ["ok", [[r[1], r[2:]] for r in rows[1:]]]


def canon_dict(o):
    """dictionary compared up to the order of its keys (rdflib's row order is not modelled)"""
    if o[0] != "ok":
        return o
    return ["ok", sorted([k, list(v)] for k, v in o[1])]


# ---------------------------------------------------------------------------------------------
# text level
# ---------------------------------------------------------------------------------------------

HDR = re.compile(r"^(\S+)\s+# (\d+) instances?\.\s*$")
LINE = re.compile(r"^\s+(\^\s+)?(\S+)\s+(\S+)\s*([+*?]|\{\d+\})?\s*;?\s*(?:# ([0-9.eE+-]+) % \((\d+) instances?\)\.)?\s*$")
COM = re.compile(r"^\s+# ([0-9.eE+-]+) % \((\d+) instances?\)\. obj: (\S+)\. Cardinality: (\S+)\s*$")


def parse_text(text):
    prefixes = {}
    shapes = []
    cur = None
    for l in text.split("\n"):
        m = re.match(r"^PREFIX (\S*): <(.*)>\s*$", l)
        if m:
            prefixes[m.group(1)] = m.group(2)
            continue
        m = HDR.match(l)
        if m and not l.startswith(" "):
            cur = {"name": m.group(1), "n": int(m.group(2)), "lines": []}
            shapes.append(cur)
            continue
        if cur is not None and l.strip() and l.strip() not in "{}":
            cur["lines"].append(l)
    return prefixes, shapes


def expand(tok, prefixes):
    if tok.startswith("<") and tok.endswith(">"):
        return tok[1:-1]
    if ":" in tok:
        p, loc = tok.split(":", 1)
        if p in prefixes:
            return prefixes[p] + loc
    return tok


def norm_obj(o, prefixes):
    if o.startswith("[") and o.endswith("]"):
        return expand(o[1:-1], prefixes)
    if o.startswith("@"):
        return "@" + expand(o[1:], prefixes)
    return expand(o, prefixes)


def recompute(G, tau, exp_inst):
    """C01-style: occurrences recomputed from the oracle's instance sets.
    exp_inst: instance key -> list of shape IRIs (the oracle's)."""
    cnt = collections.Counter()
    for s, p, o in dedup(G):
        sk = node_key(s)
        if sk in exp_inst:
            if p == tau:
                keys = [o[1]] if o[0] != "L" else []
            else:
                keys = [o[2] if o[0] == "L" else ("IRI" if o[0] == "I" else "BNode")]
                if o[0] != "L" and o[1] in exp_inst:
                    keys += ["@" + x for x in exp_inst[o[1]]]
            for k in keys:
                cnt[(sk, p, k)] += 1
    occ = collections.Counter()
    for (i, p, k), n in cnt.items():
        for sh in exp_inst[i]:
            if p == tau:
                occ[(sh, p, k, "1")] += 1
            else:
                occ[(sh, p, k, str(n))] += 1
                occ[(sh, p, k, "+")] += 1
    return occ


def check_text(text, G, tau, expected):
    """expected: {shape IRI: set of instance keys}.  Returns a list of discrepancies."""
    prefixes, shapes = parse_text(text)
    bad = []
    seen = collections.Counter()
    exp_inst = collections.defaultdict(list)
    for sh, insts in expected.items():
        for i in insts:
            exp_inst[i].append(sh)
    occ = recompute(G, tau, exp_inst)
    for s in shapes:
        iri = expand(s["name"], prefixes)
        seen[iri] += 1
        want = len(expected.get(iri, ()))
        if iri not in expected and s["n"] != 0:
            bad.append(("unexpected-shape", iri, s["n"]))
            continue
        if s["n"] != want:
            bad.append(("header", iri, s["n"], want))
            continue
        last = None
        for l in s["lines"]:
            m = COM.match(l)
            if m and last is not None:
                ratio, n, o, card = m.groups()
                k = norm_obj(o, prefixes)
                if k == "NONLITERAL" or last[0]:
                    continue
                e = occ[(iri, last[1], k, card.strip("{}"))]
                if e != int(n):
                    bad.append(("figure", iri, last[1], k, card, int(n), e))
                continue
            m = LINE.match(l)
            if m:
                inv, p, o, card, ratio, n = m.groups()
                last = (bool(inv), expand(p, prefixes))
                k = norm_obj(o, prefixes)
                if n is not None and k != "NONLITERAL" and not inv:
                    e = occ[(iri, last[1], k, card.strip("{}") if card else "1")]
                    if e != int(n):
                        bad.append(("figure", iri, last[1], k, card, int(n), e))
                continue
            bad.append(("unparsed", l))
    for iri, insts in expected.items():
        if len(insts) > 0 and seen[iri] == 0:
            bad.append(("missing-shape", iri, len(insts)))
    for iri, k in seen.items():
        if k > 1:
            bad.append(("duplicate-shape", iri, k))
    return bad


# ---------------------------------------------------------------------------------------------
# one case: observation of the real code -> verdicts
# ---------------------------------------------------------------------------------------------

def oracle_verdict(case, obs):
    """the property's verdict on what the real code produced (None = holds); only for cases
    that carry an abstract specification and on which the real code did not raise"""
    tg = case["tg"]
    G = case["graph"]
    ns = tg["ns"]
    answers = {}
    notes = []
    for sel, _ in tg["items"] or []:
        if sel[0] == "sq":
            mine = eval_bgp(ns, G, sel[2])
            theirs = obs["ans"].get(sel[1])
            if theirs is not None and sorted(map(tup, mine)) != sorted(map(tup, theirs)):
                notes.append("rdflib's answer to %r differs from the direct evaluation" % sel[1])
            answers[sel[1]] = mine
    den = denote(tg, G, answers)
    if obs["dict"][0] != "ok":
        return ("raised", obs["dict"]), den, notes
    d = obs["dict"][1]
    got = {(k, i) for i, ks in d for k in ks}
    want = set()
    for S, xs in den.items():
        for x in xs:
            want.add((key_of(S), node_key(x) if node_key(x) is not None else repr(x)))
    fails = []
    if got != want:
        fails.append(("instances", sorted(got - want)[:4], sorted(want - got)[:4]))
    mult = [(i, k) for i, ks in d for k in set(ks) if ks.count(k) > 1]
    if mult:
        fails.append(("repeated", mult[:4]))
    # text level
    if "text" in obs:
        expected = collections.defaultdict(set)
        for S, xs in den.items():
            expected[shape_iri(S)]  # named classes / labels may have no instance
            for x in xs:
                expected[shape_iri(S)].add(node_key(x) if node_key(x) is not None else repr(x))
        names = [shape_iri(S) for S in den]
        tau = resolve(ns, tg["tau"])
        bad = check_text(obs["text"], G, tau, dict(expected))
        if len(set(names)) != len(names):
            # two specification keys share one shape IRI: only duplicates are reported
            bad = [b for b in bad if b[0] == "duplicate-shape"] or ([("same-shape-name",)] if bad else [])
        if bad:
            fails.append(("text", bad[:4]))
    elif "text_err" in obs:
        fails.append(("text-raised", obs["text_err"]))
    return (fails or None), den, notes


def same_shape_name(den):
    names = [shape_iri(S) for S in den]
    return len(set(names)) != len(names)


# ---------------------------------------------------------------------------------------------
# C10-F9: which text of the prefix expansion is in the tree under test
# ---------------------------------------------------------------------------------------------

def unprefix_flags():
    """{site: bool} read from the Gen/Consts.v that core.build has just regenerated from the code under test:
    does NodeSelectorParser._unprefix_uri ('sel') / utils.uri.unprefixize_uri_if_possible ('ifp') call
    str.replace with the count 1.  None for a site whose flag is missing (gen_consts failed closed)."""
    out = {"sel": None, "ifp": None}
    try:
        with open(os.path.join(core.ROCQ, "theories", "Gen", "Consts.v")) as f:
            text = f.read()
    except OSError:
        return out
    for k in out:
        m = re.search(r"^Definition c_unprefix_%s_once : bool := (true|false)\.$" % k, text, re.M)
        if m:
            out[k] = m.group(1) == "true"
    return out


def ref_repeats_prefix(r):
    return r[0] == "P" and (r[1] + ":") in r[2]


def names_repeating_prefix(tg):
    """(through utils.uri, through the selector parser): prefixed names, outside labels, whose local part holds
    their own 'prefix:' again (Model.SelectorsDom.ref_repeats_prefix)"""
    ifp = [tg["tau"]] + list(tg["classes"] or [])
    sel = []
    for s, _ in tg["items"] or []:
        if s[0] == "node":
            sel.append(s[1])
        elif s[0] in ("fs", "fo"):
            sel += [f for f in (s[1], s[2]) if f[0] not in ("W", "a")]
    return any(ref_repeats_prefix(r) for r in ifp), any(ref_repeats_prefix(r) for r in sel)


# ---------------------------------------------------------------------------------------------
# run
# ---------------------------------------------------------------------------------------------

def gen_cases(tier, rnd, n):
    cases = []
    for idx in range(n):
        r = random.Random(rnd.getrandbits(48))
        G, typing, classes, nodes, props = gen_graph(r)
        if r.random() < 0.15:
            case = {"kind": "raw", "raw": gen_raw(r, G, typing, classes, nodes, props), "graph": G, "idx": idx}
        else:
            tg = gen_target(r, G, typing, classes, nodes, props)
            n_lit = add_class_named_literals(r, G, tg, classes, typing)
            case = {"kind": "ast", "tg": tg, "graph": G, "idx": idx, "layout": gen_layout(r, tg)}
            if n_lit:
                case["class_named_literals"] = n_lit
                case["nt_explicit_string"] = r.random() < 0.4
        cases.append(case)
    return cases


def evaluate(cases, bs, run, findings, rnd, do_vm=True):
    impl = core.pool_map(impl_case, cases, chunksize=16)
    res = {"spec_fail": [], "corr_fail": [], "known_hits": collections.Counter(), "raised": collections.Counter(),
           "dom": 0, "domc": 0, "variant": 0, "nontrivial_keys": set(), "monitor": [], "modes": collections.Counter(),
           "selectors": collections.Counter(), "render_mismatch": [], "den_mismatch": [], "outcomes": collections.Counter(),
           "vm_cases": [], "order_same": 0, "order_diff": 0,
           "repeat_names": collections.Counter(), "class_literals": collections.Counter()}
    mb = core.ModelBin() if bs.model_ok else None
    for case, obs in zip(cases, impl):
        res["monitor"] += obs["monitor"]
        c = concrete(case)
        m_out = None
        if mb is not None:
            t_in = raw_table(case, obs)
            t_out = mb.call("c10_raw", t_in)
            m_out = parse_outcome(t_out)
            if len(res["vm_cases"]) < 4000:
                res["vm_cases"].append(("c10_raw", t_in, t_out))
        res["outcomes"][obs["dict"][0] if obs["dict"][0] == "ok" else "%s:%s" % (obs["dict"][1], obs["dict"][2])] += 1
        if m_out is not None and canon_dict(m_out) != canon_dict(obs["dict"]):
            res["corr_fail"].append({"case": case, "impl": obs["dict"], "model": m_out, "detail": obs.get("detail")})
        elif m_out is not None and m_out[0] == "ok":
            if m_out == obs["dict"]:
                res["order_same"] += 1
            else:
                res["order_diff"] += 1
        if case["kind"] != "ast":
            res["modes"]["raw:" + case["raw"]["mutation"]] += 1
            continue
        tg = case["tg"]
        mode = ("all+" if tg["all"] else "") + ("classes-file" if tg["classes"] is not None and tg["cls_src"] == "F" else
                                                "classes" if tg["classes"] is not None else "") + \
               (("smap-%s-%s" % (tg["fmt"], tg["sm_src"])) if tg["items"] is not None else "")
        res["modes"][mode.rstrip("+")] += 1
        for sel, lab in tg["items"] or []:
            res["selectors"][sel[0] + ("/" + lab[0])] += 1
        dom = domc = domt = False
        rcs = []
        if mb is not None:
            a_in = ast_table(case, obs)
            a_out = mb.call("c10_ast", a_in)
            if len(res["vm_cases"]) < 4000 and rnd.random() < 0.3:
                res["vm_cases"].append(("c10_ast", a_in, a_out))
            dom = any(r[0] == "dom" and r[1] == "1" for r in a_out)
            domc = any(r[0] == "domc" and r[1] == "1" for r in a_out)
            domt = any(r[0] == "domt" and r[1] == "1" for r in a_out)
            rcs = [r[1] for r in a_out if r[0] == "rc"]
            # Coq's rendering of the specification = the harness's (canonical layout only)
            if case.get("layout") is None:
                coq = {"tau": [r[1] for r in a_out if r[0] == "tau"], "cl": [r[1] for r in a_out if r[0] == "cl"],
                       "clfile": [r[1] for r in a_out if r[0] == "clfile"], "smraw": [r[1] for r in a_out if r[0] == "smraw"],
                       "smjson": [[r[1], r[2]] for r in a_out if r[0] == "smjson"]}
                mine = {"tau": [c["tau"]], "cl": c["classes"] if (c["classes"] is not None and c["cls_src"] == "L") else [],
                        "clfile": ["\n".join(c["classes"])] if (c["classes"] is not None and c["cls_src"] == "F") else [],
                        "smraw": [c["smtext"]] if c["smtext"] is not None else [], "smjson": c["pairs"] or []}
                if coq != mine:
                    res["render_mismatch"].append({"case": case, "coq": coq, "harness": mine})
                if parse_outcome(a_out) != m_out:
                    res["render_mismatch"].append({"case": case, "what": "c10_ast and c10_raw outcomes differ"})
            else:
                res["variant"] += 1
        verdict, den, notes = oracle_verdict(case, obs)
        res["monitor"] += notes
        if mb is not None:
            # the Gallina denotation (Model.SelectorsDom.denote_list) against the Python oracle
            coq_den = collections.defaultdict(list)
            for r in a_out:
                if r[0] == "den":
                    coq_den[(r[1], r[2])].append(tuple(x for x in r[3:6]))
            answers_rdflib = {}
            py = {}
            for S, xs in denote(tg, case["graph"], {q: [list(x) for x in a] for q, a in obs["ans"].items()}).items():
                if xs:
                    py[S] = sorted((x[0], x[1], x[2] if len(x) > 2 else "") for x in xs)
            cq = {S: sorted(v) for S, v in coq_den.items()}
            if len(dedup(case["graph"])) != len(case["graph"]):
                # a repeated statement: the graph is the same set of triples; compare the denotations as sets
                py = {S: sorted(set(v)) for S, v in py.items()}
                cq = {S: sorted(set(v)) for S, v in cq.items()}
            if obs["dict"][0] != "err" or obs["dict"][1] != "ctor":
                if py != cq:
                    res["den_mismatch"].append({"case": case, "python": sorted(py.items()), "coq": sorted(cq.items())})
        if dom:
            res["dom"] += 1
        if domc:
            res["domc"] += 1
        # the instances dictionary itself is the denoted one (whatever the text level says)
        dict_right = verdict is None or (isinstance(verdict, list) and {f[0] for f in verdict} <= {"text", "text-raised"})
        if case.get("class_named_literals"):
            kind = "all_classes_mode" if tg["all"] else "target_classes" if tg["classes"] is not None else "shape_map_only"
            res["class_literals"][kind] += 1
            if dom:
                res["class_literals"][kind + "_in_C10_dom"] += 1
            if dom and dict_right:
                res["class_literals"][kind + "_in_C10_dom_dictionary_right"] += 1
            if dom and verdict is None:
                res["class_literals"][kind + "_in_C10_dom_text_right_too"] += 1
        rep_ifp, rep_sel = names_repeating_prefix(tg)
        if rep_ifp or rep_sel:
            res["repeat_names"]["cases"] += 1
            res["repeat_names"]["in_C10_dom" if dom else "outside_C10_dom"] += 1
            if dom and dict_right:
                res["repeat_names"]["in_C10_dom_dictionary_right"] += 1
            if dom and verdict is None:
                res["repeat_names"]["in_C10_dom_text_right_too"] += 1
            if "prefix_in_local" in rcs:
                res["repeat_names"]["root_cause_C10-F9"] += 1
        if den and any(len(v) > 0 for v in den.values()):
            res["nontrivial_keys"].add(json.dumps([concrete(case), case["graph"]], sort_keys=True))
        if verdict is None:
            continue
        if isinstance(verdict, tuple) and verdict[0] == "raised":
            res["raised"]["%s:%s" % (obs["dict"][1], obs["dict"][2])] += 1
            kinds = {"raised"}
            verdict = [("raised", obs["dict"], obs.get("detail"))]
        else:
            kinds = {f[0] for f in verdict}
        # a failure of the property: attribute it to a listed root cause outside the domain, or report it
        if kinds <= {"text", "text-raised"}:
            inside = domt
        elif kinds <= {"text", "text-raised", "repeated"}:
            inside = domc
        else:
            inside = dom
        primary = "raised" if "raised" in kinds else "instances" if "instances" in kinds else \
                  "text-raised" if "text-raised" in kinds else "repeated" if "repeated" in kinds else "text"
        cause = None
        for x in EXPLAINS[primary]:
            fid = FINDINGS[x]
            if x in rcs and fid in findings and findings[fid].get("status") == "known":
                cause = fid
                break
        if cause is not None and not inside:
            res["known_hits"][cause] += 1
        else:
            res["spec_fail"].append({"case": case, "verdict": verdict, "impl": obs["dict"], "dom": dom, "domc": domc,
                                     "domt": domt, "root_causes": rcs, "text": obs.get("text")})
    if mb is not None:
        mb.close()
    return res


def reproducer_case(f):
    rp = f["reproducer"]
    return {"kind": "ast", "tg": rp["tg"], "graph": rp["graph"], "idx": 0, "layout": None}


def load_corpus():
    """regression cases of repaired defects (corpus/C10/*.json): replayed first, must pass"""
    d = os.path.join(core.VERIF, "corpus", "C10")
    out = []
    if os.path.isdir(d):
        for fn in sorted(os.listdir(d)):
            if fn.endswith(".json"):
                with open(os.path.join(d, fn)) as f:
                    rp = json.load(f)
                c = dict(rp["case"])
                c.setdefault("kind", "ast")
                c.setdefault("layout", None)
                c["corpus"] = fn
                out.append(c)
    return out


def run(tier, seed, replay=None):
    run = core.Run("C10", tier, seed)
    bs = core.build("C10")
    proofs_ok = core.proof_gate(run, bs)
    rnd = random.Random(seed)
    os.makedirs(D, exist_ok=True)
    findings = {f["id"]: f for f in core.load_findings("C10")}

    if replay:
        with open(replay) as f:
            rp = json.load(f)
        cases = [rp["case"]] if "case" in rp else []
        for i, c in enumerate(cases):
            c["idx"] = i
    else:
        n = int(os.environ.get("VERIF_C10_N", 25000 if tier == "thorough" else 800))
        corpus = load_corpus()
        cases = corpus + gen_cases(tier, rnd, n)
        for i, c in enumerate(cases):
            c["idx"] = i
    else_corpus = [c for c in cases if c.get("corpus")]
    res = evaluate(cases, bs, run, findings, rnd)

    # pinned reproducers of the known findings
    flags = unprefix_flags()
    f9_repaired = flags["sel"] is True and flags["ifp"] is True
    for fid, f in findings.items():
        if f.get("status") != "known":
            continue
        case = reproducer_case(f)
        obs = impl_case(case)
        verdict, den, _ = oracle_verdict(case, obs)
        if fid == "C10-F9" and f9_repaired:
            # both copies of the line carry the count 1 in the tree under test: the root cause is gone, the
            # reproducer is a regression case (so are corpus/C10/F9-*.json, replayed with the generated cases)
            if verdict is not None:
                res["spec_fail"].insert(0, {"case": case, "verdict": verdict, "impl": obs["dict"], "dom": True,
                                            "root_causes": [], "text": obs.get("text")})
            else:
                run.notes.append("C10-F9: str.replace(prefix + ':', namespace, 1) in both places of the tree under test; "
                                 "the pinned reproducer now yields the denoted instances (delete the 'known' entry)")
            continue
        if verdict is not None:
            run.known_finding(fid, "%s -> %s" % (f["what"], json.dumps(verdict, default=str)[:140]))
        else:
            run.notes.append("finding %s no longer reproduces" % fid)

    # cross-check a sample of the binary's answers by vm_compute
    vm_n = 0
    if bs.model_ok and not replay and res["vm_cases"]:
        k = 240 if tier == "thorough" else 120
        sample = rnd.sample(res["vm_cases"], min(k, len(res["vm_cases"])))
        vm_n, mism, log = core.vm_crosscheck(sample, "c10", per_file=8, timeout=900)
        if mism:
            run.internal_errors.append("extracted binary and vm_compute disagree (C10): %s %s" % (mism[:5], log[-300:]))
    if res["render_mismatch"]:
        run.internal_errors.append("Spec.Selectors.show_* and the harness render differently: %s" %
                                   json.dumps(res["render_mismatch"][0], default=str)[:400])
    if res["den_mismatch"]:
        run.internal_errors.append("SelectorsDom.denote_list and the Python oracle differ: %s" %
                                   json.dumps(res["den_mismatch"][0], default=str)[:600])
    if res["monitor"]:
        run.internal_errors.append("a monitored assumption broke (%d): %s" % (len(res["monitor"]), res["monitor"][0]))

    for sf in res["spec_fail"][:5]:
        run.violation("the instances behind a shape are not what the target specification denotes",
                      {"case": sf["case"], "oracle": sf["verdict"], "impl": sf["impl"], "in_C10_dom": sf.get("dom"),
                       "root_causes": sf.get("root_causes"), "text": sf.get("text")})
    if not res["spec_fail"]:
        if res["corr_fail"]:
            cf = res["corr_fail"][0]
            run.violation("correspondence Model.Selectors.run vs the real instance tracker no longer checks",
                          {"broken": "correspondence c10_raw (Model/Selectors.v: run)", "case": cf["case"],
                           "impl": cf["impl"], "model": cf["model"], "detail": cf.get("detail"),
                           "n_disagreements": len(res["corr_fail"])}, failing_input=False)
        elif not proofs_ok:
            run.violation("proof obligations of C10 no longer check",
                          {"broken": "theorems of Props/C10.v", "log": run.notes[-1] if run.notes else ""},
                          failing_input=False)
        elif not bs.model_ok:
            run.violation("model no longer builds", {"broken": "Model/Entry extraction", "log": bs.model_log[-1500:]},
                          failing_input=False)

    samples = []
    for c, i in ((cases[k], k) for k in ([0, len(cases) // 3, len(cases) // 2, len(cases) - 1] if cases else [])):
        samples.append({"kwargs": {k: v for k, v in concrete(c).items() if v not in (None, False)},
                        "triples": len(c["graph"]), "kind": c["kind"]})
    run.coverage.update({
        "evaluations": len(cases),
        "distinct_nontrivial": len(res["nontrivial_keys"]),
        "rule": "one evaluation = one (graph, target specification) pair run through the real Shaper (constructor, "
                "_launch_instance_tracker, shex_graph) and through Model.Selectors.run; non-trivial = the specification "
                "denotes at least one node (measured with the Python oracle); distinct = distinct (arguments, triples) "
                "pairs among those (counted with a set)",
        "exhaustive": False,
        "in_C10_dom": res["dom"], "in_C10_dom_count": res["domc"], "layout_variants": res["variant"],
        "target_modes": dict(res["modes"]), "selector_kinds": dict(res["selectors"]),
        "impl_outcomes": dict(res["outcomes"]), "raised_outside_dom": dict(res["raised"]),
        "known_finding_hits": dict(res["known_hits"]),
        "unprefix_replace_once": flags,
        "sparql_keyword_removed_once": sparql_kw_once(),
        "sparql_selectors_holding_the_keyword": sum(1 for c in cases if c["kind"] == "ast" for sel, _ in (c["tg"]["items"] or [])
                                                    if sel[0] == "sq" and "SPARQL" in sel[1]),
        "names_repeating_their_prefix": dict(res["repeat_names"]),
        "documents_with_literals_spelled_like_a_class_iri": dict(res["class_literals"]),
        "disagreements_model_vs_impl": len(res["corr_fail"]),
        "dict_key_order_equal": res["order_same"], "dict_key_order_differs": res["order_diff"],
        "vm_compute_crosschecked": vm_n,
        "corpus_cases_replayed_first": len(else_corpus),
        "corpus_cases_failing": sorted({sf["case"].get("corpus") for sf in res["spec_fail"] if sf["case"].get("corpus")}),
        "samples": samples,
    })
    run.assumptions = [
        "rdflib parses the N-Triples text into exactly the abstract triples (monitored on every case with a shape map)",
        "rdflib answers the generated FOCUS query with one row per matching triple (the model's focus_rows); the "
        "dictionary is compared up to key order because rdflib's row order is not modelled",
        "SPARQL selectors: rdflib's answer is an oracle argument of the model; for the generated one-pattern queries "
        "it is also recomputed directly on the abstract triples (monitored)",
        "blank-node identifiers minted by rdflib are recovered structurally (colour refinement) and passed as the "
        "model's o_rid",
        "the NT reader delivers the abstract triples of the generated documents (IRIs, blank nodes, plain and typed "
        "literals in canonical form; C06's theorem)",
    ]
    return run.finish(bs)
