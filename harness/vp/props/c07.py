"""C07 -- the streaming Turtle reader yields exactly the triples of the document.

Theorems: Props/C07.v.  Model: Model/TtlReader.v.  Spec: Spec/TtlSyntax.v (abstract
documents, layouts, sem), Spec/TtlDomain.v (root causes, C07_dom).

What this check does on every run
  * builds (gen_consts -> model binary -> Props/C07.vo, Print Assumptions);
  * generates abstract documents (directives + statement groups) and LAYOUTS of them:
    bounded-exhaustive over line-break placements for small documents (every gap between two
    tokens is a blank, a line break, or a trailing comment + line break: 3^(#gaps) layouts),
    random larger documents with random layouts, a stream of out-of-dialect mutants and a
    stream of untyped numbers/booleans (excluded by the property; correspondence only);
  * runs the real BigTtlTriplesYielder (SIGALRM guard) and the extracted Gallina model on the
    text of every case and compares the observable (yielded (kind,id,pred,kind,id|datatype)
    tuples in order, then the exception class);
  * oracle = the abstract triples the document was generated from (expanded here, in Python,
    independently of the model; the Gallina `sem` and `render_doc` are compared with these on
    every case, rdflib's Turtle parser validates the generator on a sample);
  * classifies every case with the Gallina C07_dom / C07_rcs evaluated by the model binary.
"""
import itertools
import json
import os
import random
import signal
import sys
import time
import warnings

from vp import core

XSD = "http://www.w3.org/2001/XMLSchema#"
RDF = "http://www.w3.org/1999/02/22-rdf-syntax-ns#"
RDF_TYPE = RDF + "type"

# root cause (Gallina rc / mutation operator) -> finding id
RC_FINDING = {
    "ini_base": "C07-F1", "concat": "C07-F2", "dt_custom_prefix": "C07-F6", "dir_unresolved": "C07-F13",
    # reject side (mutation operators of the out-of-dialect stream)
    "glued_punct": "C07-R2", "closure_ignores_state": "C07-R3", "no_position_check": "C07-R4",
}
# Repaired (known_findings.json, status fixed; regression cases in corpus/C07 are replayed first and must pass):
# the comment scan (former F10-F12), the end-of-input check (R1), the base applied twice (F4), '#' of <#frag> (half
# of F1), the absolute-IRI test (F3), str.replace without count (F5), decide_literal_type reading the whole
# token (F7-F9, repair C06-B).


def load_corpus():
    d = os.path.join(core.VERIF, "corpus", "C07")
    out = []
    if os.path.isdir(d):
        for fn in sorted(os.listdir(d)):
            if fn.endswith(".json"):
                with open(os.path.join(d, fn)) as f:
                    c = json.load(f)
                c["name"] = fn
                out.append(c)
    return out


# --------------------------------------------------------------------------
# abstract syntax (mirrors Spec/TtlSyntax.v), rendering, meaning
# --------------------------------------------------------------------------
# ref   : ("A", iri) | ("R", ref) | ("P", pfx, loc)
# atok  : ("s", ref) | ("sb", label) | ("p", ref) | ("pa",) | ("o", ref) | ("ob", label)
#         | ("l", lex, sfx) | ("i", digits) | (",",) | (";",) | (".",)      sfx: ("-",)|("@",tag)|("^",ref)
# dir   : ("prefix", pfx, ref) | ("base", ref)
# line  : ("L", lead, [(atok, gap)...], cmt|None) | ("D", lead, dir, [gaps], cmt|None)
# doc   : [("D", dir) | ("G", subj_atok, [(pred_atok, [obj_atok...])...])]


def render_ref(r):
    if r[0] in ("A", "R"):
        return "<" + r[1] + ">"
    return r[1] + ":" + r[2]


def render_tok(t):
    k = t[0]
    if k in ("s", "p", "o"):
        return render_ref(t[1])
    if k in ("sb", "ob"):
        return "_:" + t[1]
    if k == "pa":
        return "a"
    if k == "i":
        return t[1]
    if k == "l":
        sfx = t[2]
        tail = "" if sfx[0] == "-" else ("@" + sfx[1] if sfx[0] == "@" else "^^" + render_ref(sfx[1]))
        return '"' + t[1] + '"' + tail
    return k


def dir_words(d):
    if d[0] == "prefix":
        return ["@prefix", d[1] + ":", render_ref(d[2]), "."]
    return ["@base", render_ref(d[1]), "."]


def render_line(l):
    cmt = "" if l[-1] is None else "#" + l[-1]
    if l[0] == "L":
        return l[1] + "".join(render_tok(t) + g for t, g in l[2]) + cmt
    return l[1] + "".join(w + g for w, g in zip(dir_words(l[2]), l[3])) + cmt


def render_doc(lines):
    return "\n".join(render_line(l) for l in lines)


def enc_ref(r):
    return list(r)


def enc_tok(t):
    k = t[0]
    if k in ("s", "p", "o"):
        return [k] + enc_ref(t[1])
    if k == "l":
        sfx = t[2]
        return ["l", t[1]] + (["-"] if sfx[0] == "-" else ["@", sfx[1]] if sfx[0] == "@" else ["^"] + enc_ref(sfx[1]))
    return list(t)


def enc_case(lines):
    f = []
    for l in lines:
        if l[0] == "L":
            f += ["L", l[1]]
            for t, g in l[2]:
                f += enc_tok(t) + [g]
        else:
            d = l[2]
            f += ["D", l[1]] + (["prefix", d[1]] + enc_ref(d[2]) if d[0] == "prefix" else ["base"] + enc_ref(d[1]))
            f += list(l[3])
        f += ["N"] if l[-1] is None else ["C", l[-1]]
    return f


class Undefined(Exception):
    pass


def resolve(b, ref):
    """RFC 3986 5.2 restricted to the dialect (hierarchical base without query; empty, fragment,
    absolute-path and plain relative-path references)."""
    k = b.find("://")
    if k < 0 or "?" in b or "#" in b or "?" in ref or any(s in (".", "..") for s in ref.split("/")):
        raise Undefined()
    rest = b[k + 3:]
    auth = b[:k + 3] + rest.split("/")[0]
    b0 = b
    if ref == "":
        return b0
    if ref[0] == "#":
        return b0 + ref
    if ref[0] == "/":
        if ref.startswith("//"):
            raise Undefined()
        return auth + ref
    path = b0[len(auth):]
    i = path.rfind("/")
    return auth + ("/" if i < 0 else path[:i + 1]) + ref


def resolve_ref(env, r):
    if r[0] == "A":
        return r[1]
    if r[0] == "R":
        if env["base"] is None:
            raise Undefined()
        return resolve(env["base"], r[1])
    if r[1] not in env["prefixes"]:
        raise Undefined()
    return env["prefixes"][r[1]] + r[2]


def sem_tok(env, t):
    k = t[0]
    if k in ("s", "o"):
        return ("I", resolve_ref(env, t[1]))
    if k in ("sb", "ob"):
        return ("B", "_:" + t[1])
    if k == "p":
        return resolve_ref(env, t[1])
    if k == "pa":
        return RDF_TYPE
    if k == "i":
        return ("L", XSD + "integer")
    sfx = t[2]
    if sfx[0] == "-":
        return ("L", XSD + "string")
    if sfx[0] == "@":
        return ("L", RDF + "langString")
    return ("L", resolve_ref(env, sfx[1]))


def py_sem(doc):
    """the oracle: abstract triples in document order, or None when undefined in the dialect"""
    env = {"prefixes": {}, "base": None}
    out = []
    try:
        for it in doc:
            if it[0] == "D":
                d = it[1]
                if d[0] == "prefix":
                    if d[2][0] == "P":
                        raise Undefined()
                    env["prefixes"][d[1]] = resolve_ref(env, d[2])
                else:
                    if d[1][0] == "P":
                        raise Undefined()
                    env["base"] = resolve_ref(env, d[1])
            else:
                s = sem_tok(env, it[1])
                for p, objs in it[2]:
                    pi = sem_tok(env, p)
                    for o in objs:
                        ok, oi = sem_tok(env, o)
                        out.append((s[0], s[1], pi, ok, oi))
    except Undefined:
        return None
    return out


def group_tokens(g):
    toks = [g[1]]
    for i, (p, objs) in enumerate(g[2]):
        if i:
            toks.append((";",))
        toks.append(p)
        for j, o in enumerate(objs):
            if j:
                toks.append((",",))
            toks.append(o)
    toks.append((".",))
    return toks


# --------------------------------------------------------------------------
# the real reader
# --------------------------------------------------------------------------

class _Hang(Exception):
    pass


def _on_alarm(*a):
    raise _Hang()


def impl_obs(text):
    """[status, tuples...]: status ok | exception class | hang"""
    from shexer.io.graph.yielder.big_ttl_triples_yielder import BigTtlTriplesYielder
    from shexer.model.IRI import IRI
    from shexer.model.bnode import BNode
    from shexer.model.Literal import Literal
    out = []
    status = "ok"
    signal.signal(signal.SIGALRM, _on_alarm)
    signal.setitimer(signal.ITIMER_REAL, 2.0)
    try:
        for s, p, o in BigTtlTriplesYielder(raw_graph=text).yield_triples():
            sk = "I" if isinstance(s, IRI) else "B" if isinstance(s, BNode) else "?"
            if isinstance(o, Literal):
                ok, oi = "L", o.elem_type
            else:
                ok, oi = ("I" if isinstance(o, IRI) else "B" if isinstance(o, BNode) else "?"), o.iri
            out.append((sk, s.iri, p.iri, ok, oi))
    except _Hang:
        status = "hang"
    except BaseException as e:  # noqa
        status = type(e).__name__
    finally:
        signal.setitimer(signal.ITIMER_REAL, 0)
    return [status] + out


def _impl_batch(texts):
    warnings.filterwarnings("ignore")
    return [impl_obs(t) for t in texts]


def rdflib_obs(text):
    """kinded triples as rdflib's Turtle parser sees the text (None = does not parse)"""
    import rdflib
    g = rdflib.Graph()
    try:
        g.parse(data=text, format="turtle", publicID="http://public.invalid/")
    except BaseException:  # noqa
        return None
    return g


def kinded_graph(tuples):
    import rdflib
    g = rdflib.Graph()
    for sk, si, p, ok, oi in tuples:
        s = rdflib.URIRef(si) if sk == "I" else rdflib.BNode(si)
        o = rdflib.URIRef(oi) if ok == "I" else rdflib.BNode(oi) if ok == "B" else rdflib.URIRef("urn:dt:" + oi)
        g.add((s, rdflib.URIRef(p), o))
    return g


def kinded_of_rdflib(g):
    import rdflib
    h = rdflib.Graph()
    for s, p, o in g:
        if isinstance(o, rdflib.Literal):
            dt = str(o.datatype) if o.datatype is not None else (RDF + "langString" if o.language else XSD + "string")
            o = rdflib.URIRef("urn:dt:" + dt)
        h.add((s, p, o))
    return h


def same_as_rdflib(tuples, text):
    """True/False, or None when rdflib does not parse the text"""
    import rdflib
    from rdflib.compare import isomorphic
    g = rdflib_obs(text)
    if g is None:
        return None
    h = kinded_of_rdflib(g)

    def sig(gr):
        return sorted(tuple("_" if isinstance(x, rdflib.BNode) else str(x) for x in t) for t in gr)
    try:
        mine = kinded_graph(tuples)
    except BaseException:  # noqa
        return False
    if sig(mine) != sig(h):
        return False
    if not any(isinstance(x, rdflib.BNode) for t in h for x in t):
        return True
    try:
        return isomorphic(mine, h)
    except BaseException:  # noqa
        return False


# --------------------------------------------------------------------------
# generators
# --------------------------------------------------------------------------

PREFIX_DECLS = [("ex", "http://e/"), ("ey", "http://y.org/ns#"), ("xsd", XSD), ("rdf", RDF), ("", "http://d/"),
                ("my", "http://my.org/t/")]
D_PREFIX = [("D", ("prefix", p, ("A", ns))) for p, ns in PREFIX_DECLS]

SUBJ_FORMS = [("s", ("P", "ex", "s")), ("s", ("A", "http://e/s1")), ("s", ("R", "s2")), ("sb", "b1")]
PRED_FORMS = [("p", ("P", "ex", "p")), ("pa",), ("p", ("A", "http://e/p1")), ("p", ("P", "rdf", "type"))]
OBJ_FORMS = [("o", ("P", "ey", "o")), ("o", ("A", "http://e/o#f")), ("o", ("R", "o2")), ("ob", "b2"),
             ("l", "lit", ("-",)), ("l", "hola", ("@", "es")), ("l", "5", ("^", ("P", "xsd", "integer"))),
             ("l", "x", ("^", ("A", "http://e/dt"))), ("i", "42"),
             ("l", "a #b; c, d. e", ("-",)), ("l", "q\\\"r\\\\s \\n", ("-",)),
             # absolute IRIs whose scheme holds '+', '-', '.' (RFC 3986: ALPHA *( ALPHA / DIGIT / "+" / "-" / "." )),
             # as a node and as a datatype, under the @base of fill_shape: taken as written, never resolved
             ("o", ("A", "svn+ssh://h/r")), ("l", "1.2", ("^", ("A", "x-types:semver")))]

SHAPES_1 = ["SPO.", "SPO,O.", "SPO;PO."]
SHAPES_2 = ["SPO.SPO.", "SPO,O.SPO.", "SPO.SPO;PO."]
SHAPES_3 = ["SPO.SPO.SPO."]


def fill_shape(shape, k):
    """the k-th filling of a token-kind shape: returns the doc (with a fixed preamble) or None"""
    si, rest = k % len(SUBJ_FORMS), k // len(SUBJ_FORMS)
    pi, rest = rest % len(PRED_FORMS), rest // len(PRED_FORMS)
    oi = rest % len(OBJ_FORMS)
    groups = []
    cur = None
    n = 0
    for ch in shape:
        if ch == "S":
            cur = ["G", SUBJ_FORMS[(si + n) % len(SUBJ_FORMS)], []]
            n += 1
        elif ch == "P":
            cur[2].append((PRED_FORMS[(pi + len(cur[2]) + n - 1) % len(PRED_FORMS)], []))
        elif ch == "O":
            j = sum(len(po[1]) for po in cur[2]) + 3 * (n - 1)
            cur[2][-1][1].append(OBJ_FORMS[(oi + j * (1 + si + pi)) % len(OBJ_FORMS)])
        elif ch == ".":
            groups.append(tuple(cur))
    return [("D", ("base", ("A", "http://b/d/")))] + D_PREFIX + groups


def n_fillings():
    return len(SUBJ_FORMS) * len(PRED_FORMS) * len(OBJ_FORMS)


def preamble_lines(doc):
    return [("D", "", it[1], [" "] * (len(dir_words(it[1])) - 1) + [""], None) for it in doc if it[0] == "D"]


def layouts_exhaustive(doc, with_comments=True):
    """all layouts of the statement part: every gap between two tokens is a blank, a line break,
    or (with_comments) a trailing comment then a line break"""
    toks = [t for it in doc if it[0] == "G" for t in group_tokens(it)]
    pre = preamble_lines(doc)
    choices = "BNC" if with_comments else "BN"
    for combo in itertools.product(choices, repeat=len(toks) - 1):
        lines = list(pre)
        cur = []
        for t, c in zip(toks, combo + ("E",)):
            if c == "B":
                cur.append((t, " "))
            elif c == "N" or c == "E":
                cur.append((t, ""))
                lines.append(("L", "", cur, None))
                cur = []
            else:
                cur.append((t, " "))
                lines.append(("L", "", cur, " c"))
                cur = []
        yield lines


LEX_POOL = ["a", "hello world", "x.y", "a;b", "a,b", "a#b", "a #b", "# c", "é中", "\\n", "a\\\"b", "\\\"",
            "say \\\"hi\\\" #x", ".", ";", ",", "a b ", " a", "\\u00e9", "'", "a\\'b", "<x>", "a@b", "x:y",
            "5", "true", "]", "a]", "\\\\a", "_:b", "a . b ; c , d"]
LEX_ADV = ["", "a\\\\", "\\\\", "xsd:foo", "a\\\"^^b", "^^", "a\tb", "a  b", "rdf:x", "geo:1", "dt:2",
           XSD, "a\t#b", "x \\\\"]
CMT_POOL = ["", " c", " a comment", " c # d", " say \"hi\"", " one \" quote", " ex:s ex:p ex:o .", " ;", "\t tab",
            " é", "#", " <http://e/x>", " it's", " . ; ,", " @prefix x: <http://x/> ."]
CMT_ADV = [" \" #x", "\"#", " a \" b\t#c", " \"a\" \"b\" #z", " \\\"", " say \\\"hi\\\""]
GAPS = [" ", " ", " ", "  ", "\t", " \t ", "   "]
LEADS = ["", "", "", " ", "\t", "    "]
# scheme + start of the rest: letters, digits, '+', '-', '.' after a first letter (Spec.TtlSyntax.has_scheme)
ABS_SCHEMES = ["svn+ssh://h.org/r/", "git+https://g.org/", "android-app://a.b/", "x-types:", "view-source:http://e/",
               "chrome-extension://abc/", "a1.b-c+d:", "urn:", "mailto:a@b.org?", "h2:", "Z39.50s://z/"]


class Gen(object):
    """random abstract documents with random layouts"""

    def __init__(self, rnd, adversarial):
        self.r = rnd
        self.adv = adversarial      # probability of drawing from finding territory

    def pick(self, benign, adv):
        return self.r.choice(adv) if (adv and self.r.random() < self.adv) else self.r.choice(benign)

    def ref(self, env, kind):
        r = self.r
        forms = ["P", "P", "A"] + (["R"] if env["base"] else [])
        f = r.choice(forms)
        if f == "P":
            p = r.choice(sorted(env["prefixes"]))
            loc = self.pick(["s", "o1", "Thing", "a_b", "x-y", "p.q", "é", "a:b", "", "1", "dt"],
                            [p + ":x", "a" + p + ":"])
            if p == "rdf" and loc == "type":
                loc = "typ"
            return ("P", p, loc)
        if f == "A":
            if r.random() < 0.2:
                # every scheme of RFC 3986 makes the reference absolute, with or without a base in force
                return ("A", r.choice(ABS_SCHEMES) + kind)
            return ("A", self.pick(["http://e/" + kind, "http://x.org/a/b#c", "https://s.org/" + kind, "http://e/a,b",
                                    "http://e/a;b", "http://e/x.", "http://é.org/"],
                                   ["urn:a:" + kind, "mailto:a@b.org", "ftp://f/" + kind] if env["base"] else
                                   ["urn:a:" + kind]))
        return ("R", self.pick([kind, "a/b", kind + ".ttl", "x_y", ""], ["#frag", "/abs/" + kind, "http-x", "a#b"]))

    def obj(self, env):
        r = self.r
        k = r.random()
        if k < 0.3:
            return ("o", self.ref(env, "o"))
        if k < 0.4:
            return ("ob", r.choice(["b", "b1", "x-1", "n.m", "_"]))
        if k < 0.5:
            return ("i", self.pick(["0", "5", "42", "-7", "+3", "007", "123456789012345678901234567890"], ["9" * 301]))
        lex = self.pick(LEX_POOL, LEX_ADV)
        k = r.random()
        if k < 0.4:
            return ("l", lex, ("-",))
        if k < 0.55:
            return ("l", lex, ("@", r.choice(["en", "es", "en-US", "zh-Hans-CN"])))
        # typed
        k = r.random()
        if k < 0.45 and "xsd" in env["prefixes"]:
            dt = ("P", "xsd", r.choice(["integer", "string", "date", "decimal"]))
        elif k < 0.8:
            dt = ("A", self.pick(["http://e/dt", XSD + "int", "http://e/types#t", RDF + "HTML", "x-types:semver",
                                  "git+https://g.org/dt", "urn:x-dt:1", "a1.b-c+d:t"],
                                 ["http://e/a@b", "http://e/xsd:foo", "urn:dt:x"]))
        elif env["base"] and r.random() < 0.5:
            dt = ("R", self.pick(["dt", "types/t"], ["#t", "/t"]))
        else:
            cands = [p for p in sorted(env["prefixes"]) if p not in ("xsd",)]
            if r.random() >= self.adv or not cands:
                cands = [p for p in ("xsd", "rdf") if p in env["prefixes"]] or cands
            if not cands:
                return ("l", lex, ("-",))
            p = r.choice(cands)
            dt = ("P", p, r.choice(["integer", "T", "langString"]))
        return ("l", lex, ("^", dt))

    def doc(self):
        r = self.r
        env = {"prefixes": {}, "base": None}
        doc = []

        def declare(d):
            doc.append(("D", d))
            if d[0] == "prefix":
                env["prefixes"][d[1]] = d[2][1] if d[2][0] == "A" else resolve(env["base"], d[2][1])
            else:
                env["base"] = d[1][1] if d[1][0] == "A" else resolve(env["base"], d[1][1])
        if r.random() < 0.5:
            declare(("base", ("A", self.pick(["http://b/", "http://b/d/", "https://b.org/x/y/"],
                                             ["http://b/x", "ftp://b/", "http://b"]))))
        decls = list(PREFIX_DECLS)
        r.shuffle(decls)
        for p, ns in decls[:r.randint(1, len(decls))]:
            if env["base"] and r.random() < self.adv * 0.5:
                declare(("prefix", p, ("R", "ns/")))
            else:
                declare(("prefix", p, ("A", ns)))
        if r.random() < self.adv:
            declare(("prefix", r.choice(["dt", "geo", "axsd", "xsd"]), ("A", "http://other.org/")))
        for _ in range(r.randint(1, 5)):
            if r.random() < 0.12:
                if r.random() < 0.5:
                    p, ns = r.choice(PREFIX_DECLS)
                    declare(("prefix", p, ("A", r.choice([ns, "http://redefined/"]))))
                else:
                    declare(("base", ("A", r.choice(["http://b2/", "http://b/d/e/"]))))
            s = ("s", self.ref(env, "s")) if r.random() < 0.8 else ("sb", r.choice(["b", "s1", "x-1"]))
            pos = []
            for _ in range(r.choice([1, 1, 2, 3])):
                p = ("pa",) if r.random() < 0.2 else ("p", self.ref(env, "p"))
                if p == ("p", ("P", "rdf", "typ")):
                    p = ("p", ("P", "rdf", "type"))
                pos.append((p, [self.obj(env) for _ in range(r.choice([1, 1, 2, 3]))]))
            doc.append(("G", s, pos))
        return doc

    def cmt(self):
        return self.pick(CMT_POOL, CMT_ADV)

    def filler(self, lines):
        r = self.r
        while r.random() < 0.25:
            lines.append(("L", r.choice(LEADS), [], self.cmt() if r.random() < 0.7 else None))

    def layout(self, doc, p_break=0.35):
        r = self.r
        lines = []
        self.filler(lines)
        cur = None
        for it in doc:
            if it[0] == "D":
                if cur:
                    lines.append(("L", cur[0], cur[1], None))
                    cur = None
                n = len(dir_words(it[1]))
                has_c = r.random() < 0.2
                gaps = [r.choice(GAPS) for _ in range(n - 1)] + [r.choice(GAPS) if has_c else r.choice(["", " "])]
                lines.append(("D", r.choice(LEADS), it[1], gaps, self.cmt() if has_c else None))
                self.filler(lines)
                continue
            for t in group_tokens(it):
                if cur is None:
                    cur = (r.choice(LEADS), [])
                if r.random() < p_break:
                    has_c = r.random() < 0.4
                    cur[1].append((t, r.choice(GAPS) if has_c else r.choice(["", "", " ", "\t"])))
                    lines.append(("L", cur[0], cur[1], self.cmt() if has_c else None))
                    cur = None
                    self.filler(lines)
                else:
                    cur[1].append((t, r.choice(GAPS)))
        if cur:
            has_c = r.random() < 0.3
            last = cur[1][-1]
            cur[1][-1] = (last[0], r.choice(GAPS) if has_c else r.choice(["", " "]))
            lines.append(("L", cur[0], cur[1], self.cmt() if has_c else None))
        if r.random() < 0.5:
            lines.append(("L", "", [], None))
        return lines


# out-of-dialect mutants of a valid text: (operator, finding root cause or None, text)
def mutants(rnd, doc, lines):
    text = render_doc(lines)
    out = []
    toks = [(li, ti) for li, l in enumerate(lines) if l[0] == "L" for ti in range(len(l[2]))]
    if not toks:
        return out

    def relayout(f):
        ls = [list(l) if l[0] == "L" else l for l in lines]
        for l in ls:
            if l[0] == "L":
                l[2] = list(l[2])
        f(ls)
        return "\n".join(x if isinstance(x, str) else render_line(tuple(x)) for x in ls)
    last_li, last_ti = toks[-1]

    # final '.' glued to the token before it (valid Turtle, outside the dialect)
    if len(toks) >= 2:
        pli, pti = toks[-2]
        if pli == last_li and lines[pli][2][pti][0][0] not in ("l",) and lines[pli][2][pti][0] not in ((",",), (";",), (".",)):
            def glue(ls):
                t, g = ls[pli][2][pti]
                ls[pli][2][pti] = (t, "")
            out.append(("glue_final_dot", None, relayout(glue)))

    def drop_last(ls):
        del ls[last_li][2][last_ti]
    out.append(("drop_final_dot", None, relayout(drop_last)))
    # a comma / semicolon glued on both sides
    cands = [(li, ti) for (li, ti) in toks if lines[li][2][ti][0] in ((",",),) and ti >= 1 and ti + 1 < len(lines[li][2])
             and lines[li][2][ti - 1][0][0] in ("o", "ob", "i") and lines[li][2][ti + 1][0][0] in ("o", "ob", "i")]
    if cands:
        li, ti = rnd.choice(cands)

        def glue2(ls):
            t, g = ls[li][2][ti - 1]
            ls[li][2][ti - 1] = (t, "")
            t, g = ls[li][2][ti]
            ls[li][2][ti] = (t, "")
        out.append(("glue_comma", "glued_punct", relayout(glue2)))
    # double final dot / subject-only statement: closures yield whatever is in the registers
    out.append(("double_dot", "closure_ignores_state", text + "\n."))
    out.append(("subject_only", "closure_ignores_state", text + "\n<http://e/lonely> ."))
    out.append(("no_object", "closure_ignores_state", text + "\n<http://e/s9> <http://e/p9> ."))
    # token kinds in the wrong position
    out.append(("literal_predicate", "no_position_check", text + "\n<http://e/s9> \"p\" <http://e/o9> ."))
    out.append(("bnode_predicate", "no_position_check", text + "\n<http://e/s9> _:p <http://e/o9> ."))
    out.append(("a_object", "no_position_check", text + "\n<http://e/s9> <http://e/p9> a ."))
    # constructs the code must reject (no listed finding: silence here is a violation)
    for name, tail in [("anon", "<http://e/s9> <http://e/p9> [] ."),
                       ("anon_po", "<http://e/s9> <http://e/p9> [ <http://e/q> <http://e/r> ] ."),
                       ("collection", "<http://e/s9> <http://e/p9> ( <http://e/q> ) ."),
                       ("single_quoted", "<http://e/s9> <http://e/p9> 'x' ."),
                       ("long_string", "<http://e/s9> <http://e/p9> \"\"\"x\"\"\" ."),
                       ("unterminated", "<http://e/s9> <http://e/p9> \"x ."),
                       ("no_gt", "<http://e/s9> <http://e/p9> <http://e/o9 ."),
                       ("undeclared_prefix", "<http://e/s9> nope:p <http://e/o9> ."),
                       ("bare_word", "<http://e/s9> <http://e/p9> word ."),
                       ("extra_object", "<http://e/s9> <http://e/p9> <http://e/o9> <http://e/o10> ."),
                       ("junk_after_literal", "<http://e/s9> <http://e/p9> \"x\"y ."),
                       ("literal_subject", "\"x\" <http://e/p9> <http://e/o9> ."),
                       ("prefix_no_blank", "@prefix zz: <http://z/>.\n<http://e/s9> zz:p <http://e/o9> ."),
                       ("sparql_prefix", "PREFIX zz: <http://z/>\n<http://e/s9> zz:p <http://e/o9> .")]:
        out.append((name, None, text + "\n" + tail))
    return out


NUMERIC_TOKENS = ["5.0", "1.5", "-0.5", "+2.50", ".5", "5.", "true", "false", "0.0", "123456789.12345", "1e3", "1.5E-2",
                  "1_0", "inf", "nan", "NaN", "-inf", "Infinity", "1e400", "0x10", "1.2.3", "--5", "5-", "+", "e5",
                  "12345678901234.5", "1234567890123456.5", "True", "١٢"]


# --------------------------------------------------------------------------
# running cases
# --------------------------------------------------------------------------

def model_cases(cases_fields, procs):
    """c07_case through the model binary, in parallel chunks"""
    if not cases_fields:
        return []
    n = len(cases_fields)
    size = max(1, min(2000, (n + procs - 1) // procs))
    chunks = [cases_fields[i:i + size] for i in range(0, n, size)]
    res = core.pool_map(_model_chunk, chunks, chunksize=1, procs=procs) if len(chunks) > 1 else [_model_chunk(chunks[0])]
    return [r for ch in res for r in ch]


def _model_chunk(chunk):
    mb = core.ModelBin()
    try:
        return mb.call("c07_case", chunk)
    finally:
        mb.close()


def _model_read_chunk(chunk):
    mb = core.ModelBin()
    try:
        return mb.call("c07_read", [[t] for t in chunk])
    finally:
        mb.close()


def parse_case_row(row):
    """-> dict(lay, rcs, text, sem (list|None), model [status, tuples...], end_state)"""
    if row[0] == "decode-error":
        raise core.InternalError("c07_case: the model could not decode a case")
    lay, rcs, text = row[0] == "1", [x for x in row[1].split(",") if x and x != "PARTIAL"], row[2]
    partial = "PARTIAL" in row[1].split(",")
    if row[3] == "undef":
        sem, k = None, 4
    else:
        n = int(row[3])
        sem = [tuple(row[4 + 5 * i: 9 + 5 * i]) for i in range(n)]
        k = 4 + 5 * n
    status, end_state = row[k], row[k + 1]
    rest = row[k + 2:]
    model = [status] + [tuple(rest[i:i + 5]) for i in range(0, len(rest), 5)]
    return {"lay": lay, "rcs": rcs, "partial": partial, "text": text, "sem": sem, "model": model,
            "end_state": end_state}


def parse_read_row(row):
    rest = row[2:]
    return [row[0]] + [tuple(rest[i:i + 5]) for i in range(0, len(rest), 5)], row[1]


def chunked(xs, n):
    return [xs[i:i + n] for i in range(0, len(xs), n)]


def run_impl(texts):
    res = core.pool_map(_impl_batch, chunked(texts, 200), chunksize=1)
    return [r for ch in res for r in ch]


def known_ids(findings):
    return set(fid for fid, f in findings.items() if f.get("status") == "known")


def run(tier, seed, replay=None):
    run = core.Run("C07", tier, seed)
    bs = core.build("C07")
    proofs_ok = core.proof_gate(run, bs)
    rnd = random.Random(seed)
    findings = {f["id"]: f for f in core.load_findings("C07")}
    known = known_ids(findings)
    thorough = tier == "thorough"
    t_gen = time.time()

    # ---------------- cases ----------------
    valid = []     # (family, doc, lines)
    texts_extra = []   # (family, operator, rc, text): mutants and numeric stream
    n_exh = 0
    if replay:
        with open(replay) as f:
            rp = json.load(f)
        if "lines" in rp:
            valid.append(("replay", _tuplify(rp["doc"]), _tuplify(rp["lines"])))
        elif "text" in rp:
            texts_extra.append(("replay", rp.get("operator", "replay"), rp.get("rc"), rp["text"]))
    else:
        nf = n_fillings()
        # bounded-exhaustive line-break placements
        for shape in SHAPES_1:
            ks = range(nf) if (thorough or shape == "SPO.") else range(0, nf, 7 if shape == "SPO,O." else 23)
            for k in ks:
                d = fill_shape(shape, k)
                for lines in layouts_exhaustive(d, True):
                    valid.append(("exh:" + shape, d, lines))
        for shape in SHAPES_2 + SHAPES_3:
            step = (11 if thorough else 59)
            for k in range(0, nf, step):
                d = fill_shape(shape, k)
                for lines in layouts_exhaustive(d, thorough and shape in SHAPES_2 and k % (4 * step) == 0):
                    valid.append(("exh:" + shape, d, lines))
        n_exh = len(valid)
        # random documents, random layouts
        g_in = Gen(rnd, 0.0)
        g_adv = Gen(rnd, 0.12)
        for i in range(40000 if thorough else 6000):
            g = g_adv if i % 3 == 0 else g_in
            d = g.doc()
            valid.append(("rnd:adv" if g is g_adv else "rnd:in", d, g.layout(d, rnd.choice([0.1, 0.35, 0.7]))))
        # untyped numbers / booleans: excluded by the property, correspondence only
        for tok in NUMERIC_TOKENS:
            texts_extra.append(("numeric", tok, None, "@prefix ex: <http://e/> .\nex:s ex:p %s ; ex:q %s , %s .\n%s ex:p 1 ." %
                                (tok, tok, tok, tok)))
    run.notes.append("generation %.1fs" % (time.time() - t_gen))

    # ---------------- model ----------------
    if not bs.model_ok:
        run.violation("model no longer builds", {"broken": "Model/Entry extraction", "log": bs.model_log[-1500:]},
                      failing_input=False)
        return run.finish(bs)
    t0 = time.time()
    fields = [enc_case(lines) for _, _, lines in valid]
    mrows = [parse_case_row(r) for r in model_cases(fields, core.NCPU)]
    t_model = time.time() - t0

    # ---------------- implementation ----------------
    t0 = time.time()
    texts = [render_doc(lines) for _, _, lines in valid]
    impl = run_impl(texts)
    t_impl = time.time() - t0

    # ---------------- compare ----------------
    corpus_payload = {}
    corr_fail = []          # indices into valid / ("x", j) into extras / ("c", name) into the corpus
    spec_fail = []          # (index, reason)
    known_hits = {}
    glue_errors = []
    dist = {}
    in_dom = 0
    in_dom_ok = 0
    unmodelled = 0
    nontrivial = set()
    fam_count = {}
    for i, (fam, d, lines) in enumerate(valid):
        m = mrows[i]
        fam_count[fam] = fam_count.get(fam, 0) + 1
        expect = py_sem(d)
        # the Gallina spec layer against this file's generator and oracle (glue check)
        if not m["lay"] or m["text"] != texts[i] or m["sem"] != expect:
            glue_errors.append(i)
            continue
        if expect is None:
            continue
        dist[impl[i][0]] = dist.get(impl[i][0], 0) + 1
        if m["model"][0] == "unmodelled":
            unmodelled += 1
        elif m["model"] != impl[i]:
            corr_fail.append(i)
        ok = impl[i][0] == "ok" and impl[i][1:] == expect
        if not m["rcs"]:
            in_dom += 1
            in_dom_ok += ok
        if len(texts[i].split("\n")) > len([x for x in d if x[0] == "D"]) + 1:
            nontrivial.add(texts[i])
        if not ok:
            fids = [RC_FINDING[r] for r in m["rcs"] if r in RC_FINDING]
            hit = [f for f in fids if f in known]
            if m["rcs"] and hit:
                for f in set(hit):
                    known_hits[f] = known_hits.get(f, 0) + 1
            else:
                spec_fail.append((i, "yielded triples differ from the document's triples" +
                                  (" inside C07_dom" if not m["rcs"] else " (root causes %s not listed)" % m["rcs"])))
    # out-of-dialect mutants: derived from documents inside C07_dom that are read correctly
    if not replay:
        good = [i for i in range(n_exh, len(valid)) if valid[i][0] == "rnd:in" and not mrows[i]["rcs"]
                and impl[i][0] == "ok" and impl[i][1:] == py_sem(valid[i][1])]
        for i in rnd.sample(good, min(len(good), 3000 if thorough else 600)):
            fam, d, lines = valid[i]
            for op, rc, text in mutants(rnd, d, lines):
                texts_extra.append(("mutant", op, rc, text))
    t0 = time.time()
    extra_model = []
    if texts_extra:
        res = core.pool_map(_model_read_chunk, chunked([t[3] for t in texts_extra], 500), chunksize=1)
        extra_model = [parse_read_row(r) for ch in res for r in ch]
    t_model += time.time() - t0
    t0 = time.time()
    extra_impl = run_impl([t[3] for t in texts_extra])
    t_impl += time.time() - t0
    # mutants / numeric stream
    rej_stats = {}
    for j, (fam, op, rc, text) in enumerate(texts_extra):
        mo, _ = extra_model[j]
        im = extra_impl[j]
        if mo[0] == "unmodelled":
            unmodelled += 1
        elif mo != im:
            corr_fail.append(("x", j))
        if fam == "numeric":
            continue
        # reject side: error, or exactly what a standard parser produces
        verdict = "raised" if im[0] != "ok" else None
        if verdict is None:
            same = same_as_rdflib(im[1:], text)
            verdict = "same-as-standard" if same else "silent-different"
        rej_stats[(op, verdict)] = rej_stats.get((op, verdict), 0) + 1
        if verdict == "silent-different":
            fid = RC_FINDING.get(rc)
            if fid in known:
                known_hits[fid] = known_hits.get(fid, 0) + 1
            else:
                spec_fail.append((("x", j), "out-of-dialect document neither raises nor yields the standard triples"))

    if os.environ.get("C07_DEBUG"):
        by = {}
        for ix, why in spec_fail:
            key = (why[:60], tuple(mrows[ix]["rcs"]) if not isinstance(ix, tuple) else
                   (ix[1] if ix[0] == "c" else texts_extra[ix[1]][1]))
            by.setdefault(key, []).append(ix)
        for key, ixs in sorted(by.items(), key=lambda kv: -len(kv[1])):
            print("SPECFAIL", len(ixs), key)
            for ix in ixs[:int(os.environ.get("C07_DEBUG"))]:
                print("    ", json.dumps(payload_dbg(ix, valid, texts, impl, mrows, texts_extra, extra_impl, extra_model))[:1500])
        print("CORRFAIL", len(corr_fail))
        for ix in corr_fail[:8]:
            print("    ", json.dumps(payload_dbg(ix, valid, texts, impl, mrows, texts_extra, extra_impl, extra_model))[:900])
        print("known_hits", known_hits, "in_dom", in_dom, in_dom_ok, "unmodelled", unmodelled)
        print("rej", {"%s:%s" % k: v for k, v in sorted(rej_stats.items())})

    # rdflib validates the generator (sample of the valid stream)
    rd_n = rd_bad = rd_unparsed = 0
    if not replay:
        idx = list(range(0, len(valid), max(1, len(valid) // (6000 if thorough else 1500))))
        for i in idx:
            expect = py_sem(valid[i][1])
            if expect is None:
                continue
            same = same_as_rdflib(expect, texts[i])
            rd_n += 1
            if same is None:
                rd_unparsed += 1
            elif not same:
                rd_bad += 1
                run.internal_errors.append("generator/oracle disagrees with rdflib on %r" % texts[i][:300])
                break
        if rd_unparsed > rd_n * 0.02:
            run.internal_errors.append("rdflib rejects %d of %d generated documents" % (rd_unparsed, rd_n))
    if glue_errors:
        i = glue_errors[0]
        run.internal_errors.append("Gallina render_doc/sem/lays_out disagree with the harness on case %r (lay=%s)" % (
            texts[i][:200], mrows[i]["lay"]))

    # vm_compute cross-check of a sample
    vm_n = 0
    if not replay and not glue_errors:
        idx = rnd.sample(range(len(valid)), min(len(valid), 600 if thorough else 240))
        mb = core.ModelBin()
        cases = []
        for k in range(0, len(idx), 20):
            tab = [fields[i] for i in idx[k:k + 20]]
            cases.append(("c07_case", tab, mb.call("c07_case", tab)))
        mb.close()
        vm_n, mism, log = core.vm_crosscheck(cases, "c07", per_file=2, timeout=900)
        vm_n = len(idx)
        if mism:
            run.internal_errors.append("extracted binary and vm_compute disagree (C07): %s %s" % (mism[:5], log[-300:]))

    # ---------------- regression corpus of repaired defects: must pass ----------------
    corpus = load_corpus() if not replay else []
    corpus_pass = 0
    if corpus:
        mbc = core.ModelBin()
        cm = [parse_read_row(r)[0] for r in mbc.call("c07_read", [[c["text"]] for c in corpus])]
        mbc.close()
        for c, mo in zip(corpus, cm):
            got = impl_obs(c["text"])
            if c["expected"] == "raise":
                ok = got[0] not in ("ok", "hang")
            else:
                ok = got[0] == "ok" and got[1:] == [tuple(t) for t in c["expected"]]
            if ok and mo == got:
                corpus_pass += 1
            elif not ok:
                spec_fail.insert(0, (("c", c["name"]), "regression case %s of a repaired defect (%s) fails again"
                                     % (c["name"], c.get("fixed_by"))))
                corpus_payload[c["name"]] = {"text": c["text"], "corpus": c["name"], "expected": c["expected"], "impl": got,
                                             "model": mo}
            else:
                corr_fail.append(("c", c["name"]))
                corpus_payload[c["name"]] = {"text": c["text"], "corpus": c["name"], "impl": got, "model": mo}

    # ---------------- known findings: pinned reproducers ----------------
    for fid, f in sorted(findings.items()):
        if f.get("status") != "known":
            continue
        rp = f["reproducer"]
        got = impl_obs(rp["text"])
        if rp.get("expected") == "raise":
            still = got[0] == "ok" and not same_as_rdflib(got[1:], rp["text"])
            shown = "yields %r without raising" % (got[1:3],)
        else:
            exp = [tuple(t) for t in rp["expected"]]
            still = not (got[0] == "ok" and got[1:] == exp)
            shown = "reader gives %s %r" % (got[0], got[1:2])
        if still:
            run.known_finding(fid, "%s -> %s" % (f["what"][:150], shown[:160]))
        else:
            run.notes.append("finding %s no longer reproduces" % fid)

    # ---------------- verdict ----------------
    def payload(ix):
        if isinstance(ix, tuple) and ix[0] == "c":
            return corpus_payload[ix[1]]
        if isinstance(ix, tuple):
            fam, op, rc, text = texts_extra[ix[1]]
            return {"text": text, "operator": op, "rc": rc, "impl": extra_impl[ix[1]], "model": extra_model[ix[1]][0]}
        fam, d, lines = valid[ix]
        return {"doc": d, "lines": lines, "text": texts[ix], "family": fam, "impl": impl[ix],
                "model": mrows[ix]["model"], "expected": py_sem(d), "root_causes": mrows[ix]["rcs"]}
    for ix, why in spec_fail[:5]:
        run.violation(why, payload(ix), failing_input=True)
    if not spec_fail:
        if corr_fail:
            p = payload(corr_fail[0])
            p.update({"broken": "correspondence Model.TtlReader.read_ttl vs BigTtlTriplesYielder.yield_triples",
                      "n_disagreements": len(corr_fail)})
            run.violation("correspondence of the Turtle reader model no longer checks", p, failing_input=False)
        elif not proofs_ok:
            run.violation("proof obligations of C07 no longer check",
                          {"broken": "theorems of Props/C07.v", "log": run.notes[-1] if run.notes else ""},
                          failing_input=False)

    n_eval = len(valid) + len(texts_extra)
    run.coverage.update({
        "evaluations": n_eval,
        "distinct_nontrivial": len(nontrivial),
        "rule": "valid stream: per token-kind shape (1-3 groups) x token-form fillings, ALL 3^(#gaps) layouts (each gap "
                "between two tokens = blank | line break | trailing comment + line break) for the one-group shapes "
                "(<= 7 tokens) and all 2^(#gaps) break placements for the two/three-group shapes; random documents "
                "(1-5 groups, directives interleaved, 12% of a third of them drawn from finding territory) with random "
                "layouts; out-of-dialect mutants; untyped numerics (correspondence only).  distinct_nontrivial = distinct "
                "texts in which at least one line break falls inside the statement part",
        "exhaustive": False,
        "exhaustive_subspaces": "complete enumeration of the 3^(#gaps) layouts (blank | line break | trailing comment + "
                                "line break at every token boundary) of every one-group document shape (<= 7 tokens) for "
                                "each filling used, and of the 2^(#gaps) break placements of the two- and three-group "
                                "shapes (see 'families'); the product with ALL token-form fillings is complete only for "
                                "the shape S P O . (and for all one-group shapes in the thorough tier)",
        "trusted_base": core.TRUSTED_BASE_COMMON + [
            "rdflib's Turtle parser as the 'standard parser' of the out-of-dialect stream and as validator of the "
            "generator (sample)",
            "CPython float() on untyped numeric tokens is modelled only for [+-]digits and [+-]digits.digits "
            "(<= 15 digits); other numeric tokens give the explicit model outcome 'unmodelled'"],
        "families": fam_count,
        "outcome_distribution": dist,
        "in_C07_dom": in_dom,
        "in_C07_dom_and_correct": in_dom_ok,
        "known_finding_hits": known_hits,
        "corpus_cases_replayed_first": len(corpus),
        "corpus_cases_passing": corpus_pass,
        "reject_stream": {"%s:%s" % k: v for k, v in sorted(rej_stats.items())},
        "model_unmodelled_outcomes": unmodelled,
        "disagreements_model_vs_impl": len(corr_fail),
        "rdflib_validated_documents": rd_n,
        "rdflib_unparsed": rd_unparsed,
        "vm_compute_crosschecked": vm_n,
        "timings_s": {"model": round(t_model, 1), "impl": round(t_impl, 1)},
        "samples": [{"text": texts[i], "impl": impl[i], "root_causes": mrows[i]["rcs"]}
                    for i in ([0, len(valid) // 2, len(valid) - 1] if valid else [])],
    })
    run.assumptions = [
        "rdflib's Turtle parser is the 'standard parser' for the out-of-dialect stream and validates the generator "
        "on a sample of the valid stream; it is not an oracle for the valid stream (the abstract triples are)",
        "lexical forms are not compared (the property asks for node kinds, IRIs, labels and datatypes)",
        "untyped numeric tokens outside [+-]digits / [+-]digits.digits (<= 15 digits) are not modelled (explicit "
        "'unmodelled' outcome; such cases are skipped by the correspondence and counted)"]
    return run.finish(bs)


def payload_dbg(ix, valid, texts, impl, mrows, texts_extra, extra_impl, extra_model):
    if isinstance(ix, tuple):
        fam, op, rc, text = texts_extra[ix[1]]
        return {"text": text, "op": op, "impl": extra_impl[ix[1]], "model": extra_model[ix[1]][0]}
    return {"text": texts[ix], "impl": impl[ix], "model": mrows[ix]["model"], "expected": py_sem(valid[ix][1]),
            "rcs": mrows[ix]["rcs"]}


def _tuplify(x):
    if isinstance(x, list):
        return tuple(_tuplify(y) for y in x)
    return x
