"""Text correspondence for the decorated ShExC output (C17, Model/RunDecor.v).

The real `Shaper(..., detect_minimal_iri=…, examples_mode=…).shex_graph(string_output=True)`
text is compared byte for byte (after the ratio-printing shim of pipe.py) with
`run_shexc_decor` evaluated by the extracted model (entry `pipe_shexc_decor`), one
Shaper and one call per case.

Three families of cases ((C) = a handful of hand-made corner cases of the value rendering):
  (A) C17's generated graphs (instance IRIs from several namespaces, blank nodes, literals that
      look like IRIs / prefixed names, ...) x examples_mode {None, shape, cons, all} x
      detect_minimal_iri x inverse_paths; report mode, namespaces dictionary, comments switch,
      the six inference switches, threshold and OR handling vary with the case;
  (B) the pipeline's own random graphs with the pipeline's rich configurations (instance caps,
      target classes -- also classes without any instance --, empty-shape removal) x the eight
      option pairs.
Before them the regression cases of repaired findings (corpus/C17/decor/*.json) are replayed through the same
comparison and oracle.  The options must not make an extraction fail that succeeds without them: such a crash is a
failing input unless its data-computed root cause (`root_cause`) is a listed known finding -- and the root cause of
C17-F4 is never computed once the source carries the `candidate is None` guard (the model is asked which text of
`_serialize_example` the constants were generated from).  `install` / `model_other` / `c04_cases` make the same
runner a run kind ("decor") of the pipeline-property engine: C04's crash oracle covers the two options too.
An independent reading of the property on the real text alone is part of every case as well:
the decorated text with the decorations removed (regular expressions written from the
serialiser's templates, not from the model) must equal the real text of the same run with both
options off.
"""
import json
import os
import random
import re

from vp import core, pipe, pipeprops

MODES = [None, "shape", "cons", "all"]
REPORT = ["ratio", "abs", "mixed"]

_MB = {}


def _mb():
    pid = os.getpid()
    if pid not in _MB:
        _MB.clear()
        _MB[pid] = core.ModelBin()
    return _MB[pid]


def close_model():
    for mb in _MB.values():
        mb.close()
    _MB.clear()


# --------------------------------------------------------------------------
# finding C17-F4 (a printed shape without instances + examples_mode 'shape'/'all' -> AttributeError)
# --------------------------------------------------------------------------

RC_EXAMPLE_NONE = "rc_example_none"
_GUARD = {}


def example_guard_present():
    """Gen.Consts.c_example_none_guard, asked from the model binary: True iff the source tree the constants were
    generated from carries `if candidate is None: return ""` in ShexSerializer._serialize_example (tools/gen_consts.py
    accepts exactly the two texts).  With the guard the crash of C17-F4 is never excused."""
    pid = os.getpid()
    if pid not in _GUARD:
        _GUARD.clear()
        _GUARD[pid] = _mb().call("pipe_decor_info", [["x"]])[0][0] == "1"
    return _GUARD[pid]


def classes_without_instances(ts, cfg):
    """requested target classes no node of the graph is typed with (computed from the input data)"""
    if cfg["all_classes"]:
        return []
    typed = {o[1] for (_s, p, o) in ts if p == cfg["tau"] and o[0] in ("I", "B")}
    return [c for c in cfg["targets"] if c not in typed]


def root_cause(ts, cfg, res):
    """data-computed root cause of an exception of a decorated run: RC_EXAMPLE_NONE iff the source has no guard,
    the exception is the AttributeError raised inside prefixize_uri_if_possible, a shape example is asked for, and
    a shape without instances is printed (a requested target class without instances, empty shapes kept)."""
    if res[0] != "err" or res[1] != "AttributeError":
        return None
    if len(res) > 2 and res[2] and not res[2].endswith(":prefixize_uri_if_possible"):
        return None
    if cfg.get("examples_mode") not in ("shape", "all") or cfg["remove_empty_shapes"]:
        return None
    if not classes_without_instances(ts, cfg):
        return None
    if example_guard_present():
        return None
    return RC_EXAMPLE_NONE


# --------------------------------------------------------------------------
# finding C17-F5 = C09-F3 (a "stem" cut out of the labels of a class of blank nodes only)
# --------------------------------------------------------------------------

RC_BNODE_STEM = "rc_bnode_label_stem"
_BGUARD = {}


def bnode_guard_present():
    """Gen.Consts.c_min_iri_skips_bnode_prefix, asked from the model binary (entry c17_info): True iff
    AnnotateMinIriStrategy._determine_suitable_iri_pattern starts with `if longest_common_prefix.startswith("_:"):
    return None`.  With the test a label stem is never excused."""
    pid = os.getpid()
    if pid not in _BGUARD:
        _BGUARD.clear()
        _BGUARD[pid] = _mb().call("c17_info", [["x"]])[0][0] == "1"
    return _BGUARD[pid]


def instances_by_class(ts, cfg):
    """class -> instance ids, from the typing triples of the input data (independent of the model)"""
    by = {}
    for (s, p, o) in ts:
        if p == cfg["tau"] and o[0] in ("I", "B"):
            if cfg["all_classes"] or o[1] in cfg["targets"]:
                l = by.setdefault(o[1], [])
                if s[1] not in l:
                    l.append(s[1])
    return by


def bnode_only_classes(ts, cfg):
    """root cause of the label stem, computed from the data: the classes all of whose instances are blank nodes, with
    their labels (under an instance cap the fold runs over the first instances only: any ':'-terminated prefix of
    at least three characters of one of the labels may be what the defect prints)"""
    return {c: ids for c, ids in instances_by_class(ts, cfg).items() if ids and all(i.startswith("_:") for i in ids)}


def is_label_stem(st, classes):
    return len(st) >= 3 and st.endswith(":") and any(i.startswith(st) for ids in classes.values() for i in ids)


_RE_STEM_TEXT = re.compile(r"^\S*  \[<([^\n]*?)>~\]  AND", re.M)


def label_stems_printed(text):
    """stems on the shape lines of a ShExC text that start with the blank-node marker: no IRI starts with it"""
    return [st for st in _RE_STEM_TEXT.findall(text) if st.startswith("_:")]


# --------------------------------------------------------------------------
# cases
# --------------------------------------------------------------------------

def corpus_items():
    """regression cases of repaired findings (corpus/C17/decor/*.json: {kind: decor, ts, cfg, origin}); replayed
    first on every run, through the same comparison and oracle as the generated cases"""
    d = os.path.join(core.VERIF, "corpus", "C17", "decor")
    out = []
    if os.path.isdir(d):
        for fn in sorted(os.listdir(d)):
            if fn.endswith(".json"):
                with open(os.path.join(d, fn)) as f:
                    rp = json.load(f)
                cfg = dict(rp["cfg"])
                cfg["thr"] = tuple(cfg["thr"])
                cfg["ns"] = [tuple(x) for x in cfg["ns"]]
                out.append({"ts": pipeprops.tuplify(rp["ts"]), "cfg": cfg, "origin": ["corpus", fn, None]})
    return out


def pipe_triples(c17_triples):
    """C17's (sk, sid, p, ok, o1, o2) -> pipe.py's ((sk, sid), p, o)"""
    out = []
    for (sk, sid, p, ok, o1, o2) in c17_triples:
        if ok == "L":
            if o2 == "":
                o = ("L", o1, pipe.XSD + "string")
            elif o2.startswith("@"):
                o = ("L", o1, pipe.LANGSTRING, o2[1:])
            else:
                o = ("L", o1, o2)
        else:
            o = (ok, o1)
        out.append(((sk, sid), p, o))
    return out


def cfg_for_c17_graph(r, case, dmi, mode, inv, k):
    cfg = pipe.switch_cfg(r.randrange(64)) if k % 3 else pipe.base_cfg()
    cfg["inverse_paths"] = inv
    cfg["mode"] = REPORT[k % 3] if k % 2 else r.choice(REPORT)
    cfg["ns"] = sorted((case.get("ns") or {}).items()) if r.random() < 0.8 else []
    cfg["thr"] = (0, 1) if r.random() < 0.7 else r.choice([(1, 2), (1, 1), (1, 3), (2, 3)])
    cfg["disable_comments"] = r.random() < 0.15
    cfg["remove_empty_shapes"] = r.random() < 0.8
    if r.random() < 0.25:
        cfg["disable_or_statements"] = False
        cfg["allow_redundant_or"] = r.random() < 0.5
    if r.random() < 0.12:
        # target classes, one of them without any instance
        cfg["all_classes"] = False
        cls = list(case["classes"]) + ["http://ex.org/Cnone"]
        cfg["targets"] = r.sample(cls, r.randint(1, len(cls)))
    if r.random() < 0.1:
        cfg["decimals"] = r.choice([0, 1, 2])
    cfg["detect_minimal_iri"] = dmi
    cfg["examples_mode"] = mode
    return cfg


def gen_items(tier, seed, c17_cases):
    """list of items {ts, cfg, doc, origin}"""
    items = corpus_items()
    for case in c17_cases:
        r = random.Random("decor/%d/%s" % (seed, case.get("idx")))
        ts = pipe_triples(case["triples"])
        k = 0
        for inv in (False, True):
            for mode in MODES:
                for dmi in (False, True):
                    k += 1
                    items.append({"ts": ts, "cfg": cfg_for_c17_graph(r, case, dmi, mode, inv, k),
                                  "origin": ["c17-graph", case.get("idx"), case.get("corpus")]})
    # (C) hand-made corner cases of the value rendering: a namespace that occurs twice in an IRI (str.replace
    # replaces every occurrence), a namespace equal to its own prefixed form ("ex:" -> ex), https / urn / ftp
    # instances and values, literals that look like IRIs or prefixed names, a value with a blank
    T = pipe.RDF_TYPE
    K = "http://ex.org/K"
    hand = [
        ([("urn:ex:", "u")], ["urn:ex:urn:ex:a", "urn:ex:b"], [("I", "urn:ex:urn:ex:b"), ("L", "urn:ex:x", pipe.XSD + "string")]),
        ([("ex:", "ex")], ["ex:a", "ex:b"], [("I", "ex:c"), ("L", "ex:d", pipe.XSD + "string")]),
        ([("https://s.org/", "s"), ("http://ex.org/", "ex")], ["https://s.org/a", "https://s.org/b"],
         [("I", "https://s.org/c"), ("I", "http://ex.org/c"), ("L", "https://s.org/d e", pipe.XSD + "string")]),
        ([("http://ex.org/", "")], ["http://ex.org/a", "http://ex.org/b"], [("I", "http://ex.org/c"), ("B", "_:x")]),
        ([], ["ftp://h/a", "ftp://h/b"], [("I", "ftp://h/c"), ("L", "http", pipe.XSD + "string"), ("L", "5", pipe.XSD + "integer")]),
        ([("http://ex.org/a#", "a"), ("http://ex.org/", "ex")], ["http://ex.org/a#i", "http://ex.org/a#j"],
         [("I", "http://ex.org/a#k"), ("I", "http://ex.org/k"), ("L", "a:k", pipe.XSD + "string")]),
    ]
    for hi, (ns, insts, vals) in enumerate(hand):
        ts = [(("I", i), T, ("I", K)) for i in insts]
        for vi, v in enumerate(vals):
            ts.append((("I", insts[vi % len(insts)]), "http://ex.org/p%d" % vi, v))
            if v[0] != "L":
                ts.append(((v[0], v[1]), "http://ex.org/q", ("I", insts[0])))
        r = random.Random("decorC/%d/%d" % (seed, hi))
        for inv in (False, True):
            for mode in MODES:
                for dmi in (False, True):
                    cfg = pipe.base_cfg()
                    cfg.update(inverse_paths=inv, ns=list(ns), mode=r.choice(REPORT), detect_minimal_iri=dmi, examples_mode=mode)
                    items.append({"ts": ts, "cfg": cfg, "origin": ["hand-made", hi, None]})
    nb = 1500 if tier == "thorough" else 260
    rb = random.Random("decorB/%d" % seed)
    for i in range(nb):
        r = random.Random(rb.getrandbits(48))
        ns = ("http://ex.org/", "http://other.org/ns#") if i % 4 == 0 else ("http://ex.org/",)
        ts = pipe.gen_graph(r, general=(i % 3 != 0), namespaces=ns)
        cfg = pipeprops.random_cfg(r, ts, i)
        if r.random() < 0.3:
            cfg["disable_or_statements"] = False
            cfg["allow_redundant_or"] = r.random() < 0.5
        for _ in range(2):
            c = dict(cfg)
            c["detect_minimal_iri"] = r.random() < 0.6
            c["examples_mode"] = r.choice(MODES)
            items.append({"ts": ts, "cfg": c, "origin": ["pipe-graph", i, None]})
    return items


# --------------------------------------------------------------------------
# both sides
# --------------------------------------------------------------------------

def impl_text(ts, cfg):
    return pipe.impl_shexc(ts, cfg, extra_kw={"detect_minimal_iri": bool(cfg.get("detect_minimal_iri")),
                                              "examples_mode": cfg.get("examples_mode")})


def decor_table(ts, cfg):
    t = pipe.model_table(ts, cfg)
    mode = cfg.get("examples_mode")
    t[0] = t[0] + ["1" if cfg.get("detect_minimal_iri") else "0", "N" if mode is None else "S" + mode]
    return t


def model_text(mb, ts, cfg, raw=False):
    out = mb.call("pipe_shexc_decor", decor_table(ts, cfg))
    row = out[0]
    if raw:
        return out
    if row[0] == "ok":
        return ("ok", pipe.shim(row[1], cfg["decimals"]), row[2] == "1")
    return ("err", row[1], None)


# the serialiser's templates, read as text (independent of the model and of Gen/Consts.v)
_RE_STEM = re.compile(r"^(\S*)  \[<[^\n]*?>~\]  AND", re.M)
_RE_CONS = re.compile(r"^ {12}// rdfs:comment [^\n]*\n", re.M)
_RE_INST = re.compile(r"^\} // rdfs:comment [^\n]*$", re.M)


def strip_real(text):
    t = _RE_STEM.sub(lambda m: m.group(1), text)
    t = _RE_CONS.sub("", t)
    return _RE_INST.sub("}", t)


def run_item(item):
    ts, cfg = item["ts"], item["cfg"]
    impl = impl_text(ts, cfg)
    res = {"impl": impl[:2], "where": impl[2] if len(impl) > 2 else "", "agree": None, "model": None, "dom": None,
           "struct": None}
    m = model_text(_mb(), ts, cfg)
    res["model"] = m[:2]
    res["dom"] = m[2]
    res["agree"] = (impl[0] == m[0] and impl[1] == m[1])
    decorated = bool(cfg.get("detect_minimal_iri")) or cfg.get("examples_mode") is not None
    if impl[0] == "ok" and decorated:
        plain = dict(cfg)
        plain["detect_minimal_iri"] = False
        plain["examples_mode"] = None
        base = impl_text(ts, plain)
        res["struct"] = (base[0] == "ok" and strip_real(impl[1]) == base[1])
        res["label_stems"] = label_stems_printed(impl[1])
        res["n_decor"] = (len(_RE_STEM.findall(impl[1])), len(_RE_CONS.findall(impl[1])), len(_RE_INST.findall(impl[1])))
    return res


def run_chunk(items):
    return [run_item(i) for i in items]


def stream(tier, seed, c17_cases, findings, only_item=None):
    """returns stats dict: n, disagreements [(what, payload)], oracle failures [(what, payload)], coverage"""
    items = [only_item] if only_item is not None else gen_items(tier, seed, c17_cases)
    chunks = [items[k:k + 40] for k in range(0, len(items), 40)]
    if len(chunks) > 1:
        results = [x for c in core.pool_map(run_chunk, chunks, chunksize=1) for x in c]
    else:
        results = run_chunk(items)
    guard = example_guard_present()        # asked after the pool has forked: workers own their model processes
    bguard = bnode_guard_present()
    close_model()
    st = {"n": len(items), "corr_fail": [], "spec_fail": [], "known_hits": {}, "vm": [],
          "cov": {"cases": len(items), "corpus_cases_replayed_first": sum(1 for i in items if (i.get("origin") or [None])[0] == "corpus"),
                  "example_none_guard_in_source": guard,
                  "bnode_prefix_guard_in_source": bguard,
                  "runs_with_a_class_of_blank_nodes_only": 0,
                  "shape_examples_asked_with_instanceless_shape_printed": 0,
                  "impl_ok": 0, "impl_err": {}, "in_strip_domain": 0, "with_stem": 0,
                  "with_constraint_examples": 0, "with_shape_examples": 0, "decorated_runs": 0,
                  "by_mode": {}, "by_report": {}, "inverse": 0, "target_classes": 0, "or_enabled": 0}}
    cov = st["cov"]
    for item, res in zip(items, results):
        cfg = item["cfg"]
        payload = {"kind": "decor", "ts": item["ts"], "cfg": cfg, "origin": item["origin"]}
        key = "%s/%s" % (cfg.get("examples_mode"), int(bool(cfg.get("detect_minimal_iri"))))
        cov["by_mode"][key] = cov["by_mode"].get(key, 0) + 1
        cov["by_report"][cfg["mode"]] = cov["by_report"].get(cfg["mode"], 0) + 1
        cov["inverse"] += bool(cfg["inverse_paths"])
        cov["target_classes"] += (not cfg["all_classes"])
        cov["or_enabled"] += (not cfg["disable_or_statements"])
        if res["impl"][0] == "ok":
            cov["impl_ok"] += 1
            cov["shape_examples_asked_with_instanceless_shape_printed"] += bool(
                cfg.get("examples_mode") in ("shape", "all") and not cfg["remove_empty_shapes"]
                and classes_without_instances(item["ts"], cfg))
            cov["in_strip_domain"] += bool(res["dom"])
            if res.get("n_decor"):
                cov["decorated_runs"] += 1
                cov["with_stem"] += res["n_decor"][0] > 0
                cov["with_constraint_examples"] += res["n_decor"][1] > 0
                cov["with_shape_examples"] += res["n_decor"][2] > 0
        else:
            cov["impl_err"][res["impl"][1]] = cov["impl_err"].get(res["impl"][1], 0) + 1
        if not res["agree"]:
            st["corr_fail"].append(("decorated ShExC text: implementation %s, model %s (%s)" % (
                _short(res["impl"]), _short(res["model"]), _first_diff(res["impl"], res["model"])), payload))
            continue
        if res["impl"][0] == "err":
            # the options must not make an extraction fail that succeeds without them
            plain = dict(cfg)
            plain["detect_minimal_iri"] = False
            plain["examples_mode"] = None
            base = impl_text(item["ts"], plain)
            if base[0] == "ok":
                if "C17-F4" in findings and root_cause(item["ts"], cfg, ("err", res["impl"][1], res["where"])) == RC_EXAMPLE_NONE:
                    st["known_hits"]["C17-F4"] = st["known_hits"].get("C17-F4", 0) + 1
                else:
                    st["spec_fail"].append(("extraction raises %s with detect_minimal_iri=%r, examples_mode=%r and succeeds "
                                            "without them" % (res["impl"][1], cfg.get("detect_minimal_iri"),
                                                              cfg.get("examples_mode")), payload))
            continue
        if cfg.get("detect_minimal_iri"):
            # a stem is a prefix of the IRI of every instance: none is printed for a class of blank nodes only
            bcls = bnode_only_classes(item["ts"], cfg)
            cov["runs_with_a_class_of_blank_nodes_only"] += bool(bcls)
            got = res.get("label_stems") or []
            if got:
                if "C17-F5" in findings and not bguard and all(is_label_stem(x, bcls) for x in got):
                    st["known_hits"]["C17-F5"] = st["known_hits"].get("C17-F5", 0) + 1
                else:
                    st["spec_fail"].append(("a stem cut out of blank-node labels is printed on a shape line: %r (classes of "
                                            "blank nodes only: %r)" % (got, sorted(bcls)), payload))
        if res["struct"] is False:
            st["spec_fail"].append(("the text with detect_minimal_iri=%r, examples_mode=%r, decorations removed, differs from "
                                    "the text of the same run without them" % (cfg.get("detect_minimal_iri"),
                                                                               cfg.get("examples_mode")), payload))
        if res["dom"] is False and len(st.setdefault("outside_domain_samples", [])) < 3:
            st["outside_domain_samples"].append(payload["origin"])
    return st, items


def _short(r):
    return "%s %r" % (r[0], r[1] if r[0] == "err" else "%d chars" % len(r[1]))


def _first_diff(a, b):
    if a[0] != "ok" or b[0] != "ok":
        return "outcomes differ"
    la, lb = a[1].split("\n"), b[1].split("\n")
    for i, (x, y) in enumerate(zip(la, lb)):
        if x != y:
            return "line %d: %r vs %r" % (i + 1, x, y)
    return "length %d vs %d lines" % (len(la), len(lb))


def vm_cases(items, k=2):
    """a few small cases for the vm_compute cross-check (the text holds control characters: costly)"""
    mb = core.ModelBin()
    out = []
    small = sorted(items, key=lambda it: len(it["ts"]))[:k]
    for it in small:
        t = decor_table(it["ts"], it["cfg"])
        out.append(("pipe_shexc_decor", t, mb.call("pipe_shexc_decor", t)))
    mb.close()
    return out


# --------------------------------------------------------------------------
# C04 (extraction never crashes): the same runner as a run kind of the pipeline-property engine
# --------------------------------------------------------------------------

KIND = "decor"


def install():
    """make `pipe.impl_other(ts, cfg, "decor")` run Shaper(..., detect_minimal_iri, examples_mode).shex_graph
    (wraps whatever pipe.impl_other is at the time of the call)"""
    prev = pipe.impl_other
    if getattr(prev, "_decor_installed", False):
        return

    def impl_other(ts, cfg, kind, timeout=10.0):
        if kind == KIND:
            return impl_text(ts, cfg)
        return prev(ts, cfg, kind, timeout)

    impl_other._decor_installed = True
    pipe.impl_other = impl_other


def model_other(ts, cfg, kind, impl, prev=None):
    """hook of pipeprops._work for run kind "decor": the model's text (Model/RunDecor.v) and whether it agrees with
    the implementation (outcome; text byte for byte)"""
    if kind != KIND:
        return prev(ts, cfg, kind, impl) if prev is not None else (("n/a", ""), True)
    m = model_text(_mb(), ts, cfg)
    return ("decor-model", "decorated ShExC text, byte for byte (Model/RunDecor.v)", m[0], m[1]), \
        (impl[0] == m[0] and impl[1] == m[1])


def c04_cases(tier, rnd, graph_gens, n_quick=700, n_thorough=6000):
    """cases {"runs": [(ts, cfg, "decor")]}: the graphs of C04's generators x random accepted configurations
    (pipeprops.random_cfg: 2^6 switches, report modes, caps, target classes -- also classes without instances --,
    empty-shape removal on/off, namespaces) x OR on/off x examples_mode {None, shape, cons, all} x
    detect_minimal_iri.  Every case sets at least one of the two options."""
    n = n_thorough if tier == "thorough" else n_quick
    cases = []
    for i in range(n):
        r = random.Random(rnd.getrandbits(48))
        ts = graph_gens[i % len(graph_gens)](r)
        cfg = pipeprops.random_cfg(r, ts, i)
        if r.random() < 0.3:
            cfg["disable_or_statements"] = False
            cfg["allow_redundant_or"] = r.random() < 0.5
        cfg["examples_mode"] = MODES[i % 4]
        cfg["detect_minimal_iri"] = (MODES[i % 4] is None) or r.random() < 0.5
        if i % 5 == 0 and not cfg["all_classes"]:
            cfg["remove_empty_shapes"] = False        # shapes without instances get printed
        cases.append({"runs": [(ts, cfg, KIND)], "meta": {"stream": "decor", "i": i}})
    return cases
