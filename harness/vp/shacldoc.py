"""SHACL document model (Model/ShaclDoc.v) against the real ShaclSerializer, by graph isomorphism.

Model side: entry `shacl_doc` (pipeline table -> run_shapes -> shacl_graph) and entry
`shacl_doc_shapes` (a shape list written out row by row -> shacl_graph_gen) of the extracted
binary return the abstract triples; an rdflib graph is built from them with one fresh BNode
per blank-node position.  Implementation side: the text returned by
Shaper.shex_graph(output_format=SHACL_TURTLE, string_output=True) (or by ShaclSerializer
itself for the serialiser-level grid), parsed by rdflib.  Verdict: rdflib.compare.isomorphic.

oracle(text, ...) checks S1-S3 of Spec/ShaclGraphSpec.v on the REAL document (rdflib):
  S1 every sh:node object is a node typed sh:NodeShape                     (check "node")
  S2 every property shape of a node shape has exactly one path in the accepted encoding ("path")
  S3 every node typed sh:NodeShape is an IRI, typed once, with exactly one sh:targetClass that is
     a class of the input whose label it is                                ("labels_distinct" / "node-shape")
The same three statements are theorems about the corresponded model (Props/C05.v:
C05_shacl_node_objects_declared, C05_shacl_one_path, C05_shacl_one_node_shape_per_shape).
"""
import signal
import warnings

from vp import core, pipe

SH = "http://www.w3.org/ns/shacl#"
RDFNS = "http://www.w3.org/1999/02/22-rdf-syntax-ns#"

_MB = {}


def _mb():
    import os
    k = os.getpid()
    if k not in _MB:
        _MB.clear()
        _MB[k] = core.ModelBin()
    return _MB[k]


# --------------------------------------------------------------------------
# model rows -> rdflib graph
# --------------------------------------------------------------------------

def graph_of_rows(rows):
    import rdflib
    g = rdflib.Graph()
    bn = {}

    def term(kind, val, dt=""):
        if kind == "I":
            return rdflib.URIRef(val)
        if kind == "B":
            if val not in bn:
                bn[val] = rdflib.BNode()
            return bn[val]
        return rdflib.Literal(val, datatype=rdflib.URIRef(dt)) if dt else rdflib.Literal(val)
    for r in rows:
        g.add((term(r[0], r[1]), rdflib.URIRef(r[2]), term(r[3], r[4], r[5])))
    return g, len(bn)


def model_doc(table, entry="shacl_doc", mb=None):
    """-> ('ok', flags dict, rows) | ('err', exception name) | ('runerr', exception name)"""
    out = (mb or _mb()).call(entry, table)
    h = out[0]
    if h[0] == "ok":
        return ("ok", {"S1": h[1] == "1", "S2": h[2] == "1", "refs_closed": h[3] == "1", "labels_distinct": h[4] == "1"},
                out[1:])
    return (h[0], h[1])


def parse_real(text):
    import rdflib
    g = rdflib.Graph()
    g.parse(data=text, format="turtle")
    return g


def forest_signature(g, max_depth=200):
    """sorted list of 'subject predicate object' strings, a blank-node object written as the sorted list of its own
    arcs (recursively).  Returned only when the blank nodes of g form a forest hanging from its other nodes (every
    blank node is the object of exactly one triple and is reached from a non-blank subject): two such graphs are
    isomorphic exactly when their signatures are equal.  None otherwise."""
    import collections
    import rdflib
    indeg = collections.Counter(o for _, _, o in g if isinstance(o, rdflib.BNode))
    bnodes = {s for s in g.subjects() if isinstance(s, rdflib.BNode)} | set(indeg)
    if any(indeg[b] != 1 for b in bnodes):
        return None
    seen = [0]

    def ns(n, depth):
        if isinstance(n, rdflib.BNode):
            if depth > max_depth:
                raise RecursionError()
            seen[0] += 1
            return "[" + " ; ".join(sorted("<%s> %s" % (p, ns(o, depth + 1)) for p, o in g.predicate_objects(n))) + "]"
        if isinstance(n, rdflib.Literal):
            return '"%s"^^<%s>@%s' % (n, n.datatype or "", n.language or "")
        return "<%s>" % n
    try:
        out = sorted("%s <%s> %s" % (ns(s, 0), p, ns(o, 1)) for s, p, o in g if not isinstance(s, rdflib.BNode))
    except RecursionError:
        return None
    return out if seen[0] == len(bnodes) else None       # a blank node not reached: a cycle of blank nodes


BIG_GRAPH = 4000     # triples; rdflib.compare.isomorphic takes minutes on documents of thousands of blank nodes


def isomorphic(g1, g2):
    import rdflib.compare
    if len(g1) != len(g2):
        return False
    if len(g1) > BIG_GRAPH:
        a, b = forest_signature(g1), forest_signature(g2)
        if a is not None and b is not None:
            return a == b
    return rdflib.compare.isomorphic(g1, g2)


def _sig(g):
    """a blank-node-free description of a graph (for the payload of a disagreement)"""
    import rdflib

    def ns(n, depth=0):
        if isinstance(n, rdflib.BNode):
            if depth > 5:
                return "[...]"
            return "[" + " ; ".join(sorted("<%s> %s" % (p, ns(o, depth + 1)) for p, o in g.predicate_objects(n))) + "]"
        if isinstance(n, rdflib.Literal):
            return '"%s"^^<%s>' % (n, n.datatype or "")
        return "<%s>" % n
    return sorted("%s <%s> %s" % (ns(s), p, ns(o)) for s, p, o in g if not isinstance(s, rdflib.BNode))


# --------------------------------------------------------------------------
# pipeline level: one (ts, cfg) run
# --------------------------------------------------------------------------

def compare_run(ts, cfg, impl_res, mb=None):
    """impl_res = pipe.impl_other(ts, cfg, 'shacl').  -> dict(agree, kind, detail)"""
    m = model_doc(pipe.model_table(ts, cfg), "shacl_doc", mb)
    return compare_outcomes(m, impl_res)


def UNDECLARED_RDF(text):
    return "@prefix rdf:" not in text and " rdf:type" in text


def compare_outcomes(m, impl_res):
    if m[0] == "runerr" and m[1] == "random-prefix":
        return {"agree": True, "kind": "outside-model:random-prefix", "detail": None}
    if impl_res[0] != "ok":
        cls = impl_res[1]
        if cls == "Hang":
            return {"agree": True, "kind": "impl-hang", "detail": None}
        # rdflib refuses to print an IRI holding one of <>" {}|\^` (term.py: _is_valid_uri): the graph was built, the
        # Turtle writer raised in _produce_output.  The model predicts it (Model.ShaclDoc.produce_output: the error
        # "Exception" when a subject / object IRI of its graph holds such a character), so it is compared like any
        # other exception below.
        if m[0] in ("err", "runerr") and m[1] == cls:
            where = impl_res[2] if len(impl_res) > 2 else ""
            # the innermost sheXer frame of a serialiser fault is the serialiser itself, or -- TypeError of a
            # disjunction (finding C04-F3) -- the st_type property the serialiser reads
            in_ser = "shacl_serializer" in where or (cls == "TypeError" and "fixed_prop_choice_statement" in where)
            if m[0] == "err" and not in_ser and where:
                return {"agree": False, "kind": "error-site",
                        "detail": "model: the SHACL serialiser raises %s; real: raised in %s" % (cls, where)}
            return {"agree": True, "kind": "%s:%s" % (m[0], cls), "detail": None}
        return {"agree": False, "kind": "outcome",
                "detail": "real code raises %s (%s), model says %s" % (cls, impl_res[2] if len(impl_res) > 2 else "", m[:2])}
    if m[0] != "ok":
        return {"agree": False, "kind": "outcome", "detail": "real code returns a document, model says %s %s" % (m[0], m[1])}
    kind = "isomorphic"
    try:
        real = parse_real(impl_res[1])
    except Exception as e:  # noqa: BLE001
        # rdflib 6.0.2's Turtle writer prints rdf:type in OBJECT position as the qname rdf:type without declaring the
        # prefix when nothing else of the rdf: namespace is printed (its preprocessing skips the keyword 'a').  Only the
        # serialiser-level grid reaches it (an instantiation property other than rdf:type and rdf:type as a path, no
        # sh:in list in the document); the triples are compared after declaring the prefix by hand, counted apart.
        if UNDECLARED_RDF(impl_res[1]):
            try:
                real = parse_real("@prefix rdf: <%s> .\n" % RDFNS + impl_res[1])
                kind = "isomorphic(rdflib-undeclared-rdf-prefix)"
            except Exception as e2:  # noqa: BLE001
                return {"agree": False, "kind": "real-parse", "detail": "real SHACL text does not parse: %s" % str(e2)[:200]}
        else:
            return {"agree": False, "kind": "real-parse", "detail": "real SHACL text does not parse: %s" % str(e)[:200]}
    mg, nb = graph_of_rows(m[2])
    if isomorphic(mg, real):
        return {"agree": True, "kind": kind, "detail": None, "triples": len(real), "bnodes": nb, "flags": m[1]}
    a, b = _sig(mg), _sig(real)
    return {"agree": False, "kind": "not-isomorphic",
            "detail": {"model_only": [x for x in a if x not in b][:6], "real_only": [x for x in b if x not in a][:6],
                       "model_triples": len(mg), "real_triples": len(real)}}


# --------------------------------------------------------------------------
# N-Triples text of the C11 generators -> abstract triples of the pipeline table
# --------------------------------------------------------------------------

def ts_of_nt(nt):
    """the (s, p, o) triples of pipe.py for the N-Triples subset the generators print
    (one statement per line, single spaces, no comments); document order kept"""
    out = []
    for line in nt.split("\n"):
        line = line.strip()
        if not line:
            continue
        if not line.endswith("."):
            raise ValueError("not a statement: %r" % line)
        body = line[:-1].strip()
        s, rest = body.split(" ", 1)
        p, o = rest.split(" ", 1)
        o = o.strip()

        def node(x):
            if x.startswith("<") and x.endswith(">"):
                return ("I", x[1:-1])
            if x.startswith("_:"):
                return ("B", x)
            raise ValueError("not a node: %r" % x)
        if o.startswith('"'):
            end = o.rfind('"')
            lex, tail = o[1:end], o[end + 1:]
            if tail.startswith("^^<") and tail.endswith(">"):
                ot = ("L", lex, tail[3:-1])
            elif tail.startswith("@"):
                ot = ("L", lex, pipe.LANGSTRING, tail[1:])
            elif tail == "":
                ot = ("L", lex, pipe.XSD + "string")
            else:
                raise ValueError("literal tail %r" % tail)
        else:
            ot = node(o)
        if not (p.startswith("<") and p.endswith(">")):
            raise ValueError("predicate %r" % p)
        out.append((node(s), p[1:-1], ot))
    return out


def cfg_of_c11_case(case):
    """the pipeline configuration of a C11 case (Shaper(raw_graph, NT, all_classes_mode=True, namespaces_dict, switches))"""
    cfg = pipe.base_cfg()
    for k, v in case["switches"].items():
        if k not in cfg:
            return None
        cfg[k] = v
    ns = case.get("ns")
    cfg["ns"] = [(n, p) for n, p in (ns.items() if isinstance(ns, dict) else (ns or []))]
    cfg["thr"] = tuple(case["thr"])
    return cfg


def compare_c11(case, r):
    """r = props.c11.impl_case(case): same Shaper, SHACL asked after ShExC"""
    if r["status"] != "ok":
        return {"agree": True, "kind": "skipped:" + r["status"], "detail": None}
    cfg = cfg_of_c11_case(case)
    if cfg is None:
        return {"agree": True, "kind": "skipped:switches", "detail": None}
    try:
        ts = ts_of_nt(case["nt"])
    except ValueError as e:
        return {"agree": True, "kind": "skipped:nt(%s)" % str(e)[:40], "detail": None}
    if r["shacl"] is not None:
        impl = ("ok", r["shacl"])
    else:
        impl = ("err", (r["shacl_error"] or "?").split(":")[0], "shacl_serializer")
    return compare_run(ts, cfg, impl)


# --------------------------------------------------------------------------
# serialiser level: synthetic shape lists through ShaclSerializer
# --------------------------------------------------------------------------

class _Examples(object):
    """stands for ShapeExampleFeaturesDict after the shexing stage: shape_min_iri subscripts a dict"""

    def __init__(self, d):
        self._d = d

    def shape_min_iri(self, shape_id):
        return self._d[shape_id]


def _alarm(signum, frame):
    raise pipe.Hang()


def impl_shapes(spec):
    """spec = {tau, detect, shapes: [{name, class, pat: 'K'|'N'|'S..', stmts: [(inv, prop, type, card)]}]}"""
    from shexer.model.statement import Statement
    from shexer.model.shape import Shape
    from shexer.io.shacl.formater.shacl_serializer import ShaclSerializer
    warnings.filterwarnings("ignore")
    old = signal.signal(signal.SIGALRM, _alarm)
    signal.setitimer(signal.ITIMER_REAL, 10.0)
    try:
        shapes, pats = [], {}
        for s in spec["shapes"]:
            sts = [Statement(st_property=p, st_type=t, cardinality=c, n_occurences=1, probability=1.0,
                             serializer_object=None, is_inverse=inv) for (inv, p, t, c) in s["stmts"]]
            shapes.append(Shape(name=s["name"], class_uri=s["class"], statements=sts, n_instances=1))
            if s["pat"] != "K":
                pats[s["class"]] = None if s["pat"] == "N" else s["pat"][1:]
            elif s["class"] in pats:
                del pats[s["class"]]
        text = ShaclSerializer(target_file=None, shapes_list=shapes, namespaces_dict=dict(spec.get("ns") or {}),
                               string_return=True, instantiation_property_str=spec["tau"],
                               detect_minimal_iri=spec["detect"], shape_example_features=_Examples(pats)).serialize_shapes()
        return ("ok", text)
    except pipe.Hang:
        return ("err", "Hang", "")
    except Exception as e:  # noqa: BLE001
        import traceback
        frames = [f for f in traceback.extract_tb(e.__traceback__) if "/shexer/" in f.filename]
        where = "%s:%d:%s" % (frames[-1].filename.split("/shexer/")[-1], frames[-1].lineno, frames[-1].name) if frames else ""
        if type(e).__name__ == "KeyError" and not where:
            where = "shacl_serializer (examples dictionary)"
        return ("err", type(e).__name__, where or "shacl_serializer")
    finally:
        signal.setitimer(signal.ITIMER_REAL, 0)
        signal.signal(signal.SIGALRM, old)


def table_of_shapes(spec):
    t = [["Z", spec["tau"], "1" if spec["detect"] else "0"]]
    for s in spec["shapes"]:
        t.append(["S", s["name"], s["class"], s["pat"]])
        for (inv, p, ty, c) in s["stmts"]:
            t.append(["T", "1" if inv else "0", p, ty, str(c)])
    return t


def compare_shapes(spec):
    impl = impl_shapes(spec)
    m = model_doc(table_of_shapes(spec), "shacl_doc_shapes")
    res = compare_outcomes(m, impl)
    res["impl_outcome"] = impl[0] if impl[0] == "ok" else impl[1]
    return res


E = "http://example.org/"
XSD = pipe.XSD
GRID_TYPES = [XSD + "string", XSD + "integer", pipe.LANGSTRING, E + "dt/custom", "IRI", "BNode", "NONLITERAL",
              "%<http://weso.es/shapes/A>", "%<http://weso.es/shapes/B>", "%<http://other.org/shapes#D>", ".", "LITERAL",
              "%http://weso.es/shapes/A", "%<", "_:c", "urn:x:C"]
GRID_CARDS = [1, 2, 12, "+", "*", "?"]
GRID_PROPS = [pipe.RDF_TYPE, E + "p", "https://example.org/q", "urn:x:p", "<" + E + "cornered>", "<urn:x:cornered>"]
GRID_NAMES = ["%<http://weso.es/shapes/A>", "%<http://weso.es/shapes/B>", "%<http://custom.example/ns#A>",
              "<http://weso.es/shapes/A>", "%<http://weso.es/shapes/A", "@<http://weso.es/shapes/A>"]


def grid_specs(rnd, n):
    """random shape lists at the serialiser level: 1-3 shapes x 0-4 statements over the grids above (faults included:
    non-http(s) predicates and class values, ill-formed labels and references), detect_minimal_iri on for a third
    (pattern present / None / missing entry), duplicate labels and classes now and then"""
    out = []
    for i in range(n):
        shapes = []
        faulty = rnd.random() < 0.25
        for k in range(rnd.randint(1, 3)):
            name = rnd.choice(GRID_NAMES if faulty and rnd.random() < 0.3 else GRID_NAMES[:3])
            cls = E + rnd.choice(["A", "B", "C"])
            if faulty and rnd.random() < 0.3:
                # class keys as a shape map leaves them (label in corners: sh:targetClass keeps them / loses them, by the
                # text of _add_target_class) and keys rdflib's writer refuses whatever the text
                cls = rnd.choice(["<" + cls + ">", "<" + cls + ">", "<<" + cls + ">>", cls + " x", "<" + cls])
            sts = []
            for j in range(rnd.randint(0, 4)):
                p = rnd.choice(GRID_PROPS if faulty and rnd.random() < 0.4 else GRID_PROPS[:3])
                if p == pipe.RDF_TYPE:
                    ty = rnd.choice([E + "A", E + "B", "https://example.org/K"] +
                                    (["_:c", "urn:x:C", "<" + E + "cornered>", "IRI"] if faulty else []))
                else:
                    ty = rnd.choice(GRID_TYPES if faulty else GRID_TYPES[:10])
                sts.append((rnd.random() < 0.35, p, ty, rnd.choice(GRID_CARDS)))
            shapes.append({"name": name, "class": cls, "stmts": sts,
                           "pat": rnd.choice(["N", "Shttp://example.org/i", "Shttp://example.org/c0_", "K"])})
        out.append({"tau": pipe.RDF_TYPE if rnd.random() < 0.9 else E + "isA", "detect": i % 3 == 0, "shapes": shapes})
    return out


# --------------------------------------------------------------------------
# oracle: S1-S3 on the real document
# --------------------------------------------------------------------------

def oracle(text, classes=None, label_of=None):
    """-> (list of (check, description), number of checked items).
    classes: class IRIs of the input (S3: every sh:targetClass is one of them); label_of(class) -> shape IRI"""
    import rdflib
    from rdflib.namespace import RDF
    sh = rdflib.Namespace(SH)
    try:
        g = parse_real(text)
    except Exception as e:  # noqa: BLE001
        return [("parse", "SHACL output does not parse as Turtle: %s" % str(e)[:200])], 1
    fails, n = [], 0
    # S1
    for s, o in g.subject_objects(sh.node):
        n += 1
        if not isinstance(o, rdflib.URIRef) or (o, RDF.type, sh.NodeShape) not in g:
            fails.append(("node", "sh:node object %s is not a declared sh:NodeShape" % o))
    # S2: property shapes = objects of sh:property from a node shape (+ everything typed sh:PropertyShape)
    node_shapes = list(g.subjects(RDF.type, sh.NodeShape))
    pshapes = set(g.subjects(RDF.type, sh.PropertyShape))
    for ns_ in node_shapes:
        pshapes |= set(g.objects(ns_, sh.property))
    for ps in pshapes:
        n += 1
        direct = list(g.objects(ps, sh.path))
        nested = list(g.objects(ps, sh.property))
        ok = False
        if len(direct) == 1 and not nested:
            ok = isinstance(direct[0], rdflib.URIRef)
        elif not direct and len(nested) == 1:
            inv = list(g.objects(nested[0], sh.inversePath))
            ok = len(inv) == 1 and isinstance(inv[0], rdflib.URIRef)
        if not ok:
            fails.append(("path", "property shape with %d sh:path and %d nested sh:property (inverse paths: %s)" % (
                len(direct), len(nested), [len(list(g.objects(x, sh.inversePath))) for x in nested])))
    # S3
    for ns_ in node_shapes:
        n += 1
        if not isinstance(ns_, rdflib.URIRef):
            fails.append(("node-shape", "a blank node is typed sh:NodeShape"))
            continue
        tcs = list(g.objects(ns_, sh.targetClass))
        if len(tcs) != 1:
            fails.append(("labels_distinct", "node shape %s has %d sh:targetClass arcs (one label for several classes)" % (
                ns_, len(tcs))))
            continue
        c = str(tcs[0])
        if classes is not None and c not in classes:
            fails.append(("node-shape", "sh:targetClass %s of %s is not a class of the input" % (c, ns_)))
        elif label_of is not None and label_of(c) != str(ns_):
            fails.append(("node-shape", "node shape %s targets %s, whose label is %s" % (ns_, c, label_of(c))))
    return fails, n
